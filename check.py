#!/usr/bin/env python3
"""Orchestrator for the deterministic-simulation checks of cooklang-rs (/repo).

  ./check.py setup
  ./check.py C18 [--tier quick|thorough]
  ./check.py C11 [--tier quick|thorough]
  ./check.py replay <replay-file>

Exit 0: the property held on everything explored (KNOWN-FINDING lines allowed).
Exit 1: `VIOLATION property=<id> replay=<path>` printed for an unlisted violation.
Exit 2: build or harness error; nothing is claimed.

Everything random derives from VERIF_SEED (default 1). Workers are processes; worker
w of W executes runs w, w+W, ... so a run's history inside its process is a pure
function of (VERIF_SEED, tier, w, W).
"""
import json
import os
import shutil
import subprocess
import sys
import time

HERE = os.path.dirname(os.path.abspath(__file__))
REPO = os.environ.get("VERIF_REPO", "/repo")
TARGET = os.path.join(HERE, ".target")
BIN = os.path.join(TARGET, "release", "cooksim")
SHADOW_BIN_PATH = os.path.join(TARGET, "release", "cooksim-shadow")
TMP = os.path.join(TARGET, "tmp")
REPLAYS = os.path.join(HERE, "replays")
EVIDENCE = os.path.join(HERE, "evidence")
NCPU = min(16, os.cpu_count() or 4)

ENV = dict(os.environ)
ENV.update({"CARGO_NET_OFFLINE": "true", "CARGO_TARGET_DIR": TARGET, "CARGO_TERM_COLOR": "never"})
ENV.pop("SHUTTLE_RANDOM_SEED", None)
ENV.pop("RUSTFLAGS", None)

REAL_VS_STUB = (
    "Real: the whole cooklang crate built from /repo's working tree (lexer, pull parser, analysis, metadata, "
    "convert, scale, aisle, report rendering, serde impls), serde_yaml, codesnake, yansi, std HashMap tables "
    "(seeded hasher via the verif_hooks seam), std LazyLock. Simulated in cooksim: the thread scheduler "
    "(shuttle coroutines on one OS thread, every choice made by cooksim's own seeded scheduler), byte sinks "
    "(FaultyWriter), user callbacks, the tracing subscriber, the event-iterator adapter, hash entropy, the clock "
    "(libc's clock reads and sleeps interposed by /verif/simclock: discrete simulated time with seeded jumps). "
    "In cookmiri nothing is stubbed: std::thread, atomics, RandomState and LazyLock run as MIR under Miri's "
    "seeded scheduler with the data-race detector on (guard off)."
)


VIOLATION_PRINTED = False
PREFIX_MINIMISED = False


def log(msg):
    global VIOLATION_PRINTED
    if msg.startswith("VIOLATION "):
        VIOLATION_PRINTED = True
    print(msg, flush=True)


def die(msg, code=2):
    # a harness problem met *after* a violation was already reported must not turn the
    # exit status into "harness error": the violation stands
    if VIOLATION_PRINTED:
        log(f"NOTE: stopped early after reporting the violation(s) above: {msg}")
        sys.exit(1)
    log(f"HARNESS-ERROR: {msg}")
    sys.exit(code)


SIMCLOCK_SO = os.path.join(TARGET, "simclock", "libsimclock.so")
POOL_FILE = os.path.join(TARGET, "pool-big-inputs.json")


def sim_env(env=None):
    """Environment of a simulator process: the clock seam (/verif/simclock) is preloaded, so that
    every clock read and sleep of the process goes through the simulator (pass-through until a
    phase switches to simulated time). Compilers, cargo and Miri run without it."""
    e = dict(env or ENV)
    if os.path.exists(POOL_FILE):
        e["COOKSIM_POOL"] = POOL_FILE
    if os.path.exists(SIMCLOCK_SO):
        e["LD_PRELOAD"] = SIMCLOCK_SO + ((":" + e["LD_PRELOAD"]) if e.get("LD_PRELOAD") else "")
    return e


def build_simclock():
    src = os.path.join(HERE, "simclock", "simclock.c")
    try:
        if os.path.exists(SIMCLOCK_SO) and os.path.getmtime(SIMCLOCK_SO) >= os.path.getmtime(src):
            return True
        os.makedirs(os.path.dirname(SIMCLOCK_SO), exist_ok=True)
        tmp = SIMCLOCK_SO + f".{os.getpid()}.tmp"
        p = subprocess.run(["cc", "-shared", "-fPIC", "-O2", "-o", tmp, src, "-ldl"], stdout=subprocess.PIPE, stderr=subprocess.STDOUT, text=True, timeout=120)
        if p.returncode != 0:
            log(f"NOTE: the clock seam could not be built ({p.stdout.strip()[-300:]}); the simulator runs on the real clock (no clock faults)")
            return False
        os.replace(tmp, SIMCLOCK_SO)
        return True
    except Exception as e:  # noqa
        log(f"NOTE: the clock seam could not be built ({e}); the simulator runs on the real clock (no clock faults)")
        return False


def run(cmd, cwd=None, timeout=None, env=None, capture=True):
    if cmd and cmd[0] in (BIN, SHADOW_BIN_PATH):
        env = sim_env(env)
    try:
        p = subprocess.run(cmd, cwd=cwd, env=env or ENV, timeout=timeout, stdout=subprocess.PIPE if capture else None,
                           stderr=subprocess.STDOUT if capture else None, text=True)
        return p.returncode, p.stdout or ""
    except subprocess.TimeoutExpired as e:
        out = e.stdout or ""
        if isinstance(out, bytes):
            out = out.decode("utf-8", "replace")
        return 124, out


# --------------------------------------------------------------------------- build

def cargo_build(crate, extra=(), timeout=1800):
    d = os.path.join(HERE, crate)
    lock = os.path.join(d, "Cargo.lock")
    if not os.path.exists(lock):
        shutil.copy(os.path.join(REPO, "Cargo.lock"), lock)
    return run(["cargo", "build", "--release", "--offline", *extra], cwd=d, timeout=timeout)


def build_cooksim():
    """Rebuild the simulator against /repo's current working tree (cargo's own
    freshness check; the path dependency makes any source edit trigger it)."""
    t0 = time.time()
    build_simclock()
    rc, out = cargo_build("cooksim")
    if rc == 0:
        # the pool's large inputs are chosen (with the library's help: they must produce an output)
        # by a process of its own, so that no worker touches the library before its first scenario
        try:
            os.remove(POOL_FILE)
        except OSError:
            pass
        rcp, outp = run([BIN, "probe-pool", "--out", POOL_FILE + ".tmp"], timeout=600)
        if rcp == 0 and os.path.exists(POOL_FILE + ".tmp"):
            os.replace(POOL_FILE + ".tmp", POOL_FILE)
        else:
            log(f"NOTE: cooksim probe-pool failed ({outp[-300:]}); the pool's large inputs are taken unchecked")
        return time.time() - t0
    os.makedirs(TMP, exist_ok=True)
    logp = os.path.join(TMP, "build-cooksim.log")
    open(logp, "w").write(out)
    # Attribute the failure: does the library itself build? are the public types still Send + Sync?
    rc2, out2 = cargo_build("sendsync_probe")
    if rc2 != 0:
        probe_log = os.path.join(REPLAYS, "C18-not-sync-compiler-output.txt")
        lib_ok = "could not compile `cooklang`" not in out2
        not_sync = ("cannot be shared between threads safely" in out2 or "cannot be sent between threads safely" in out2)
        if lib_ok and not_sync:
            os.makedirs(REPLAYS, exist_ok=True)
            open(probe_log, "w").write(out2)
            return ("not-sync", probe_log)
    errs = [l for l in out.splitlines() if l.startswith("error")][:10]
    die(f"cooksim does not build against /repo (log: {logp}): " + " | ".join(errs))


# --------------------------------------------------------------------------- shadow build

SHADOW_DIR = os.path.join(TARGET, "shadow", "cooklang")
SHADOW_BIN = os.path.join(TARGET, "release", "cooksim-shadow")
assert SHADOW_BIN == SHADOW_BIN_PATH
SHUTTLE_SYNC = {"Mutex", "MutexGuard", "RwLock", "RwLockReadGuard", "RwLockWriteGuard", "Condvar", "Once", "Barrier", "BarrierWaitResult"}

# The shadow copy gets this module; every path into std::sync / core::sync is redirected to it, so
# a primitive is caught however it is imported (use-tree, alias, glob, `use std::sync;` + `sync::Mutex`).
# Explicit re-exports take precedence over the glob, so what shuttle models is shuttle's and the
# rest (Arc, Weak, LazyLock, OnceLock, PoisonError, ...) stays std's.
VERIF_SYNC_RS = r"""//! generated by /verif/check.py (shadow build only)
//!
//! What shuttle models is shuttle's; `Mutex`, `RwLock`, `OnceLock` and `LazyLock` are thin wrappers
//! that add ONE scheduling point right after a lock was acquired / right before a lazy value is
//! built. shuttle's own primitives yield only *before* they acquire, so a critical section that
//! contains no further synchronisation would be atomic under the simulated scheduler, while a real
//! thread can be preempted anywhere inside it - in particular other threads can find the lock
//! held (`try_lock` fails) or the lazy value missing (`get()` is `None`) for a while.
#![allow(unused_imports, dead_code)]
pub use std::sync::*;
pub use shuttle::sync::{
    Barrier, BarrierWaitResult, Condvar, MutexGuard, Once, OnceState, RwLockReadGuard, RwLockWriteGuard, WaitTimeoutResult,
};
pub mod atomic {
    pub use shuttle::sync::atomic::*;
}
pub mod mpsc {
    pub use shuttle::sync::mpsc::*;
}

/// the holder of a lock is preempted right after it got it
#[inline]
fn preempt() {
    if !std::thread::panicking() {
        shuttle::thread::sleep(std::time::Duration::ZERO);
    }
}

pub struct Mutex<T: ?Sized> {
    inner: shuttle::sync::Mutex<T>,
}

impl<T> Mutex<T> {
    pub const fn new(value: T) -> Self {
        Self { inner: shuttle::sync::Mutex::new(value) }
    }
    pub fn into_inner(self) -> LockResult<T> {
        self.inner.into_inner()
    }
}

impl<T: ?Sized> Mutex<T> {
    pub fn lock(&self) -> LockResult<MutexGuard<'_, T>> {
        let r = self.inner.lock();
        preempt();
        r
    }
    pub fn try_lock(&self) -> TryLockResult<MutexGuard<'_, T>> {
        let r = self.inner.try_lock();
        if !matches!(r, Err(TryLockError::WouldBlock)) {
            preempt();
        }
        r
    }
    pub fn get_mut(&mut self) -> LockResult<&mut T> {
        self.inner.get_mut()
    }
    /// (shuttle's model has no `is_poisoned`: approximated by an attempt to lock; a lock that is
    /// held at the moment answers `false`)
    pub fn is_poisoned(&self) -> bool {
        matches!(self.inner.try_lock(), Err(TryLockError::Poisoned(_)))
    }
    pub fn clear_poison(&self) {
        self.inner.clear_poison()
    }
}

impl<T: Default> Default for Mutex<T> {
    fn default() -> Self {
        Self::new(T::default())
    }
}
impl<T> From<T> for Mutex<T> {
    fn from(t: T) -> Self {
        Self::new(t)
    }
}
impl<T: ?Sized + std::fmt::Debug> std::fmt::Debug for Mutex<T> {
    fn fmt(&self, f: &mut std::fmt::Formatter<'_>) -> std::fmt::Result {
        std::fmt::Debug::fmt(&self.inner, f)
    }
}

pub struct RwLock<T: ?Sized> {
    inner: shuttle::sync::RwLock<T>,
}

impl<T> RwLock<T> {
    pub const fn new(value: T) -> Self {
        Self { inner: shuttle::sync::RwLock::new(value) }
    }
    pub fn into_inner(self) -> LockResult<T> {
        self.inner.into_inner()
    }
}

impl<T: ?Sized> RwLock<T> {
    pub fn read(&self) -> LockResult<RwLockReadGuard<'_, T>> {
        let r = self.inner.read();
        preempt();
        r
    }
    pub fn write(&self) -> LockResult<RwLockWriteGuard<'_, T>> {
        let r = self.inner.write();
        preempt();
        r
    }
    pub fn try_read(&self) -> TryLockResult<RwLockReadGuard<'_, T>> {
        let r = self.inner.try_read();
        if !matches!(r, Err(TryLockError::WouldBlock)) {
            preempt();
        }
        r
    }
    pub fn try_write(&self) -> TryLockResult<RwLockWriteGuard<'_, T>> {
        let r = self.inner.try_write();
        if !matches!(r, Err(TryLockError::WouldBlock)) {
            preempt();
        }
        r
    }
    pub fn get_mut(&mut self) -> LockResult<&mut T> {
        self.inner.get_mut()
    }
    pub fn is_poisoned(&self) -> bool {
        matches!(self.inner.try_read(), Err(TryLockError::Poisoned(_)))
    }
    pub fn clear_poison(&self) {
        self.inner.clear_poison()
    }
}

impl<T: Default> Default for RwLock<T> {
    fn default() -> Self {
        Self::new(T::default())
    }
}
impl<T> From<T> for RwLock<T> {
    fn from(t: T) -> Self {
        Self::new(t)
    }
}
impl<T: ?Sized + std::fmt::Debug> std::fmt::Debug for RwLock<T> {
    fn fmt(&self, f: &mut std::fmt::Formatter<'_>) -> std::fmt::Result {
        std::fmt::Debug::fmt(&self.inner, f)
    }
}

/// std's `OnceLock` behind a gate: whoever builds the value holds the gate and is preempted
/// once before building, so other tasks see the cell empty meanwhile (`get`) or wait for it
/// (`get_or_init`), as real threads do.
pub struct OnceLock<T> {
    cell: std::sync::OnceLock<T>,
    gate: shuttle::sync::Mutex<()>,
}

impl<T> OnceLock<T> {
    pub const fn new() -> Self {
        Self { cell: std::sync::OnceLock::new(), gate: shuttle::sync::Mutex::new(()) }
    }
    pub fn get(&self) -> Option<&T> {
        self.cell.get()
    }
    pub fn get_mut(&mut self) -> Option<&mut T> {
        self.cell.get_mut()
    }
    pub fn set(&self, value: T) -> Result<(), T> {
        let _g = self.gate.lock().unwrap_or_else(|e| e.into_inner());
        self.cell.set(value)
    }
    pub fn get_or_init<F: FnOnce() -> T>(&self, f: F) -> &T {
        if let Some(v) = self.cell.get() {
            return v;
        }
        let _g = self.gate.lock().unwrap_or_else(|e| e.into_inner());
        preempt();
        self.cell.get_or_init(f)
    }
    pub fn into_inner(self) -> Option<T> {
        self.cell.into_inner()
    }
    pub fn take(&mut self) -> Option<T> {
        self.cell.take()
    }
}

impl<T> Default for OnceLock<T> {
    fn default() -> Self {
        Self::new()
    }
}
impl<T: std::fmt::Debug> std::fmt::Debug for OnceLock<T> {
    fn fmt(&self, f: &mut std::fmt::Formatter<'_>) -> std::fmt::Result {
        std::fmt::Debug::fmt(&self.cell, f)
    }
}
impl<T: Clone> Clone for OnceLock<T> {
    fn clone(&self) -> Self {
        Self { cell: self.cell.clone(), gate: shuttle::sync::Mutex::new(()) }
    }
}
impl<T> From<T> for OnceLock<T> {
    fn from(t: T) -> Self {
        Self { cell: std::sync::OnceLock::from(t), gate: shuttle::sync::Mutex::new(()) }
    }
}
impl<T: PartialEq> PartialEq for OnceLock<T> {
    fn eq(&self, other: &Self) -> bool {
        self.cell == other.cell
    }
}
impl<T: Eq> Eq for OnceLock<T> {}

pub struct LazyLock<T, F = fn() -> T> {
    cell: OnceLock<T>,
    init: std::sync::Mutex<Option<F>>,
}

impl<T, F: FnOnce() -> T> LazyLock<T, F> {
    pub const fn new(f: F) -> Self {
        Self { cell: OnceLock::new(), init: std::sync::Mutex::new(Some(f)) }
    }
    pub fn force(this: &Self) -> &T {
        this.cell.get_or_init(|| {
            let f = this.init.lock().unwrap_or_else(|e| e.into_inner()).take();
            match f {
                Some(f) => f(),
                None => panic!("LazyLock instance has previously been poisoned"),
            }
        })
    }
}

impl<T, F: FnOnce() -> T> std::ops::Deref for LazyLock<T, F> {
    type Target = T;
    fn deref(&self) -> &T {
        Self::force(self)
    }
}
impl<T: Default> Default for LazyLock<T> {
    fn default() -> Self {
        Self::new(T::default)
    }
}
impl<T: std::fmt::Debug, F> std::fmt::Debug for LazyLock<T, F> {
    fn fmt(&self, f: &mut std::fmt::Formatter<'_>) -> std::fmt::Result {
        std::fmt::Debug::fmt(&self.cell, f)
    }
}
"""

# The same for std::thread: helper threads the library starts itself become simulated tasks.
VERIF_THREAD_RS = """//! generated by /verif/check.py (shadow build only)
#![allow(unused_imports, dead_code)]
pub use std::thread::*;
pub use shuttle::thread::{
    current, park, park_timeout, scope, sleep, spawn, yield_now, JoinHandle, Scope, ScopedJoinHandle, Thread, ThreadId,
};

/// std's `Builder` over shuttle's (which has no `spawn_scoped`)
#[derive(Debug, Default)]
pub struct Builder {
    name: Option<String>,
    stack_size: Option<usize>,
}

impl Builder {
    pub fn new() -> Self {
        Self::default()
    }
    pub fn name(mut self, name: String) -> Self {
        self.name = Some(name);
        self
    }
    pub fn stack_size(mut self, size: usize) -> Self {
        self.stack_size = Some(size);
        self
    }
    fn inner(self) -> shuttle::thread::Builder {
        let mut b = shuttle::thread::Builder::new();
        if let Some(n) = self.name {
            b = b.name(n);
        }
        if let Some(s) = self.stack_size {
            b = b.stack_size(s);
        }
        b
    }
    pub fn spawn<F, T>(self, f: F) -> std::io::Result<JoinHandle<T>>
    where
        F: FnOnce() -> T + Send + 'static,
        T: Send + 'static,
    {
        self.inner().spawn(f)
    }
    pub fn spawn_scoped<'scope, 'env, F, T>(self, scope: &'scope Scope<'scope, 'env>, f: F) -> std::io::Result<ScopedJoinHandle<'scope, T>>
    where
        F: FnOnce() -> T + Send + 'scope,
        T: Send + 'scope,
    {
        Ok(scope.spawn(f))
    }
}
"""


def rewrite_sync(text):
    """Redirect every path into std::sync / core::sync to crate::verif_sync (see VERIF_SYNC_RS).
    Returns (new text, n) where n counts mentions of primitives shuttle models in a file that was
    redirected (0 => this file's shadow image behaves exactly like the original)."""
    import re

    def split_top(body):
        items, depth, cur = [], 0, ""
        for ch in body:
            if ch == "{":
                depth += 1
            elif ch == "}":
                depth -= 1
            if ch == "," and depth == 0:
                items.append(cur.strip())
                cur = ""
            else:
                cur += ch
        if cur.strip():
            items.append(cur.strip())
        return items

    def sync_trees(rest, mod="sync"):
        """`rest` is what follows `sync`/`thread` in a use tree ('' | ' as x' | '::X' | '::{..}'); returns use trees."""
        rest = rest.strip()
        if rest == "":
            return [f"crate::verif_{mod} as {mod}"]
        if rest.startswith("as "):
            return [f"crate::verif_{mod} {rest}"]
        rest = rest[2:] if rest.startswith("::") else rest
        subs = split_top(rest[1:-1]) if rest.startswith("{") and rest.endswith("}") else [rest]
        out, plain = [], []
        for sub in subs:
            if sub == "self":
                out.append(f"crate::verif_{mod} as {mod}")
            elif sub.startswith("self as "):
                out.append(f"crate::verif_{mod} {sub[5:]}")
            else:
                plain.append(sub)
        if plain:
            out.append(f"crate::verif_{mod}::{{{', '.join(plain)}}}")
        return out

    def one_use(prefix, trees):
        # ONE use item (a preceding #[cfg] attribute keeps applying to all of it)
        return f"{prefix}use {trees[0]};" if len(trees) == 1 else f"{prefix}use {{{', '.join(trees)}}};"

    # use std::{..., sync::X, sync::{..}, sync, ...};
    def std_tree(m):
        prefix, root, body = m.group(1), m.group(2), m.group(3)
        keep, moved = [], []
        for it in split_top(body):
            mm = re.match(r"(sync|thread)\b(.*)$", it, flags=re.S)
            if mm and (mm.group(2).strip() == "" or mm.group(2).lstrip().startswith(("::", "as "))):
                moved += sync_trees(mm.group(2), mm.group(1))
            else:
                keep.append(it)
        if not moved:
            return m.group(0)
        return one_use(prefix, ([f"{root}::{{{', '.join(keep)}}}"] if keep else []) + moved)

    nested = r"(?:[^{};]|\{(?:[^{};]|\{(?:[^{};]|\{[^{};]*\})*\})*\})*"
    pre = r"(^[ \t]*(?:pub(?:\([a-z:]+\))? )?)"
    text = re.sub(pre + r"use (?:::)?(std|core)::\{(" + nested + r")\};", std_tree, text, flags=re.M)
    # use std::sync; / use std::sync as x; / use std::sync::{self, ..};
    text = re.sub(pre + r"use (?:::)?(?:std|core)::(sync|thread)((?:\s+as\s+\w+)?);",
                  lambda m: one_use(m.group(1), sync_trees(m.group(3), m.group(2))), text, flags=re.M)
    text = re.sub(pre + r"use (?:::)?(?:std|core)::(sync|thread)::(\{" + nested + r"\});",
                  lambda m: one_use(m.group(1), sync_trees("::" + m.group(3), m.group(2))), text, flags=re.M)
    # every remaining path (`std::thread_local!` is not a path into std::thread: \b after `thread`
    # does not match before `_`)
    text, k = re.subn(r"(?<![\w:])(?:::)?(?:std|core)::(sync|thread)\b", r"crate::verif_\1", text)
    if "crate::verif_sync" not in text and "crate::verif_thread" not in text:
        return text, 0
    code = "\n".join(l for l in text.splitlines() if not l.lstrip().startswith("//"))
    n = len(re.findall(r"\b(?:Mutex|RwLock|Condvar|Barrier|Once|mpsc|atomic|Atomic[A-Z]\w*)\b", code))
    n += len(re.findall(r"crate::verif_thread\b", code))
    return text, n


def prepare_shadow():
    """Copy /repo to the shadow directory and rewrite its sync primitives. Returns a dict with
    what was rewritten, or None if nothing in the library uses them (then the shadow run would
    be identical to the normal one and is skipped)."""
    os.makedirs(os.path.dirname(SHADOW_DIR), exist_ok=True)
    rc, out = run(["rsync", "-a", "--delete", "--exclude", "target", "--exclude", ".git", "--exclude", "fuzz", "--exclude", "playground",
                   "--exclude", "bindings", "--exclude", "swift", "--exclude", "benches", REPO + "/", SHADOW_DIR + "/"], timeout=300)
    if rc != 0:
        die(f"rsync of /repo to the shadow directory failed: {out[-500:]}")
    total = 0
    files = []
    tls = 0
    lazy_only = []
    import re as _re
    for root, _dirs, names in os.walk(os.path.join(SHADOW_DIR, "src")):
        for nme in names:
            if not nme.endswith(".rs") or nme == "verif_seam.rs":
                continue
            fp = os.path.join(root, nme)
            txt = open(fp).read()
            tls += txt.count("thread_local!")
            new, k = rewrite_sync(txt)
            if k:
                open(fp, "w").write(new)
                total += k
                files.append(os.path.relpath(fp, SHADOW_DIR))
            elif new != txt and _re.search(r"\b(?:OnceLock|LazyLock)\b", new):
                lazy_only.append((fp, new))
    # files whose only synchronisation is a lazily built value get the gated OnceLock / LazyLock too -
    # but only when the shadow build runs at all (some file uses a primitive shuttle models)
    if total:
        for fp, new in lazy_only:
            open(fp, "w").write(new)
            files.append(os.path.relpath(fp, SHADOW_DIR) + " (lazy values only)")
    open(os.path.join(SHADOW_DIR, "src", "verif_sync.rs"), "w").write(VERIF_SYNC_RS)
    open(os.path.join(SHADOW_DIR, "src", "verif_thread.rs"), "w").write(VERIF_THREAD_RS)
    librs = os.path.join(SHADOW_DIR, "src", "lib.rs")
    with open(librs, "a") as f:
        f.write("\nmod verif_sync;\nmod verif_thread;\n")
    # own workspace, no benches, shuttle as a dependency
    ct = open(os.path.join(SHADOW_DIR, "Cargo.toml")).read()
    import re
    keep, skipping = [], False
    for line in ct.splitlines():
        st = line.strip()
        if st.startswith("["):
            skipping = st in ("[workspace]", "[[bench]]")
        if not skipping:
            keep.append(line)
    ct = "\n".join(keep) + "\n\n[workspace]\n"
    ct = ct.replace("[dependencies]\n", "[dependencies]\nshuttle = \"=0.9.3\"\n", 1)
    open(os.path.join(SHADOW_DIR, "Cargo.toml"), "w").write(ct)
    return {"rewrites": total, "files": files, "thread_locals_left": tls}


def build_shadow():
    """Returns (info, error). info None => skip."""
    info = prepare_shadow()
    if not info["rewrites"]:
        return info, "the library uses no std::sync primitive that shuttle models; the shadow run would equal the normal one"
    d = os.path.join(HERE, "cooksim-shadow")
    lock = os.path.join(d, "Cargo.lock")
    if not os.path.exists(lock):
        shutil.copy(os.path.join(HERE, "cooksim", "Cargo.lock"), lock)
    rc, out = run(["cargo", "build", "--release", "--offline"], cwd=d, timeout=1800)
    if rc != 0:
        os.makedirs(TMP, exist_ok=True)
        open(os.path.join(TMP, "build-shadow.log"), "w").write(out)
        errs = [l for l in out.splitlines() if l.startswith("error")][:4]
        return info, "the rewritten copy does not build (" + " | ".join(errs) + f"); log {os.path.join(TMP, 'build-shadow.log')}"
    return info, None


# --------------------------------------------------------------------------- workers

class Batch:
    """A set of worker processes with a progress-based watchdog: each worker writes the
    index of the run it is starting to a progress file; a worker whose progress does not
    change for `stall_s` seconds (normal run: about a millisecond) is killed and reported
    with that run index - a real self-deadlock inside the library is a hang of the
    process, not something shuttle can see."""

    def __init__(self, name, stall_s=90):
        self.name = name
        self.procs = []
        self.stall_s = stall_s
        self.dir = os.path.join(TMP, f"{name}-{os.getpid()}")
        shutil.rmtree(self.dir, ignore_errors=True)
        os.makedirs(self.dir, exist_ok=True)

    def spawn(self, args, tag, progress=False, binary=None, env=None, cwd=None, prefix=(), tty=False):
        """`prefix`: command words put in front (e.g. taskset -c 0). `tty`: stdin, stdout and stderr
        of the worker are a pseudo-terminal (drained into the .err file by a thread) instead of files."""
        out = os.path.join(self.dir, f"{tag}.json")
        errp = os.path.join(self.dir, f"{tag}.err")
        err = open(errp, "w")
        prog = os.path.join(self.dir, f"{tag}.progress")
        extra = ["--progress", prog] if progress else []
        cmd = [*prefix, binary or BIN, *args, *extra, "--out", out, "--replay-dir", REPLAYS]
        if tty:
            import pty
            import threading
            master, slave = pty.openpty()
            p = subprocess.Popen(cmd, env=sim_env(env), cwd=cwd, stdin=slave, stdout=slave, stderr=slave, close_fds=True)
            os.close(slave)

            def drain(fd=master, f=err):
                try:
                    while True:
                        b = os.read(fd, 4096)
                        if not b:
                            break
                        f.write(b.decode("utf-8", "replace"))
                        f.flush()
                except OSError:
                    pass
                finally:
                    os.close(fd)
            threading.Thread(target=drain, daemon=True).start()
        else:
            p = subprocess.Popen(cmd, env=sim_env(env), cwd=cwd, stdout=err, stderr=err)
        self.procs.append(dict(p=p, out=out, tag=tag, args=args, prog=prog if progress else None, last=None, last_t=time.time()))

    def wait(self, timeout_s, tolerate_crash=False):
        """Returns (outputs, hung) where hung = [(tag, args, run_index or None)]. With
        `tolerate_crash` a worker that dies abnormally is recorded in self.crashed instead of
        being a harness error (the shadow build: shuttle aborts the process when every simulated
        task is blocked, e.g. a re-entrant lock)."""
        outs, hung = [], []
        self.crashed = []
        deadline = time.time() + timeout_s
        live = list(self.procs)
        while live:
            time.sleep(0.02 if len(live) < 4 else 0.1)
            now = time.time()
            nxt = []
            for w in live:
                rc = w["p"].poll()
                if rc is None:
                    stalled = False
                    cur = None
                    if w["prog"]:
                        try:
                            cur = open(w["prog"]).read().strip()
                        except OSError:
                            cur = None
                        if cur != w["last"]:
                            w["last"], w["last_t"] = cur, now
                        stalled = now - w["last_t"] > self.stall_s
                    if stalled or now > deadline:
                        w["p"].kill()
                        w["p"].wait()
                        idx = int(w["last"]) if (w["last"] or "").isdigit() else None
                        hung.append((w["tag"], w["args"], idx))
                    else:
                        nxt.append(w)
                    continue
                if rc not in (0, 1):
                    errtxt = open(os.path.join(self.dir, f"{w['tag']}.err")).read()[-2000:]
                    if tolerate_crash:
                        try:
                            idx = int(open(w["prog"]).read().strip()) if w["prog"] else None
                        except (OSError, ValueError):
                            idx = None
                        self.crashed.append((w["tag"], w["args"], idx, rc, errtxt))
                        continue
                    die(f"worker {self.name}/{w['tag']} exited with {rc}: {errtxt}")
                try:
                    o = json.load(open(w["out"]))
                    o["_out"] = w["out"]
                    outs.append(o)
                    # shadow workers continue in a fresh process after a run in which a panic unwound
                    # inside the simulation; each earlier process left its statistics in <out>.part<k>
                    import glob as _glob
                    for pf in sorted(_glob.glob(w["out"] + ".part*")):
                        if pf.endswith(".u64"):
                            continue
                        po = json.load(open(pf))
                        po["_out"] = pf
                        po["violations"] = []
                        outs.append(po)
                except Exception as e:  # noqa
                    die(f"worker {self.name}/{w['tag']} wrote no valid output: {e}")
            live = nxt
        return outs, hung

    def cleanup(self):
        shutil.rmtree(self.dir, ignore_errors=True)


def count_distinct(files):
    files = [f for f in files if os.path.exists(f)]
    if not files:
        return 0
    rc, out = run([BIN, "distinct", *files], timeout=1200)
    if rc != 0:
        die(f"cooksim distinct failed: {out[-500:]}")
    return json.loads(out.strip().splitlines()[-1])["distinct"]


def merge_counts(dst, src):
    for k, v in src.items():
        dst[k] = dst.get(k, 0) + v


# --------------------------------------------------------------------------- violations

def load_known():
    p = os.path.join(HERE, "known_findings.json")
    if not os.path.exists(p):
        return []
    return json.load(open(p))


def matches_known(entry, rf):
    """A violation is suppressed only if its class and its *minimised* scenario match a
    `known` entry exactly. `fixed` entries suppress nothing."""
    if entry.get("status") != "known" or entry.get("property") != rf.get("property"):
        return False
    if entry.get("class") != rf.get("class"):
        return False
    m = entry.get("match", {})
    if "aisle_text" in m:
        return (rf.get("aisle") or {}).get("text") == m["aisle_text"]
    if "inputs" in m:
        return (rf.get("scenario") or {}).get("inputs") == m["inputs"]
    return False


def process_violation(prop, raw):
    """Re-execute alone in a fresh process, minimise, replay the minimised file in a
    fresh process. Returns (final_path, reproduced_alone, replay_file_json)."""
    path = raw["replay"]
    shadow = raw.get("engine") == "shadow"
    real_bin = BIN
    use_bin = SHADOW_BIN if shadow else BIN
    rc, out = run([use_bin, "replay", path, "--no-prefix"], timeout=300)
    alone = rc == 1
    note = []
    if not alone:
        rc2, out2 = run([use_bin, "replay", path], timeout=900)
        if rc2 == 1:
            note.append("reproduces only after the worker's earlier runs (state leaked between runs)")
        else:
            # statistical replay: an unseamed nondeterminism source (e.g. std RandomState)
            hits = 0
            for _ in range(32):
                r, _o = run([use_bin, "replay", path, "--no-prefix"], timeout=120)
                hits += r == 1
            note.append(f"nondeterministic replay: reproduced in {hits}/32 fresh processes")
            if hits:
                alone = True
    final = path
    global PREFIX_MINIMISED
    if not alone and any("reproduces only after" in n for n in note) and not PREFIX_MINIMISED:
        PREFIX_MINIMISED = True  # once per check run: each attempt replays the worker's earlier runs
        final = minimise_prefix(path)
    if alone:
        minp = path.replace(".json", ".min.json")
        rc3, out3 = run([use_bin, "minimise", path, "--out", minp], timeout=900)
        if rc3 == 0 and os.path.exists(minp):
            rc4, _ = run([use_bin, "replay", minp, "--no-prefix"], timeout=300)
            if rc4 != 1:
                # the schedule found inside the minimiser's process does not carry over to a fresh
                # one: search a schedule for the minimised scenario there and store it
                rc6, _ = run([use_bin, "research", minp, "--tries", "6000"], timeout=900)
                if rc6 == 1:
                    rc4, _ = run([use_bin, "replay", minp, "--no-prefix"], timeout=300)
            if rc4 == 1:
                final = minp
    rf = json.load(open(final))
    # shuttle's simulated threads share the OS thread's thread_local!s, real threads do not. A
    # violation whose (minimised) scenario needs two or more simulated threads is therefore
    # confirmed before it counts: all operations on one thread, one operation nested into another
    # (re-entrant caller), or real OS threads under the baton scheduler.
    confirmed, how = True, ""
    sc = rf.get("scenario") or {}
    # (a shadow build whose source has no thread_local! left shares nothing but what real threads
    # share too - its multi-thread violations need no confirmation; one with thread-locals is
    # confirmed with the normal binary, which reproduces thread-local defects on one thread)
    if shadow and not raw.get("shadow_thread_locals"):
        pass
    elif prop == "C18" and alone and len(sc.get("threads", [])) >= 2:
        rc5, out5 = run([real_bin, "confirm", final], timeout=900)
        how = (out5.strip().splitlines() or [""])[-1]
        confirmed = rc5 == 1
        note.append(("confirmed: " if confirmed else "NOT confirmed: ") + how)
    if shadow:
        rf["engine"] = "shadow"
        note.append("found by the shadow build (std::sync primitives of the library rewritten to shuttle's); replay with ./check.py replay, which rebuilds it")
    if note or shadow:
        rf.setdefault("notes", []).extend(note)
        json.dump(rf, open(final, "w"), indent=1)
    rf["_confirmed"] = confirmed
    return final, alone, rf


def minimise_prefix(path, budget_s=150, max_tests=24):
    """A violation that needs the runs its worker executed before: shrink that list of run
    indexes (drop chunks while the class still reproduces in a fresh process)."""
    rf = json.load(open(path))
    pre = list(rf.get("prefix_run_indexes") or [])
    if len(pre) < 2:
        return path
    t_end = time.time() + budget_s
    tmpf = path.replace(".json", ".prefix-try.json")
    tests = 0
    before = len(pre)

    def still(cand):
        nonlocal tests
        tests += 1
        c = dict(rf)
        c["prefix_run_indexes"] = cand
        json.dump(c, open(tmpf, "w"))
        rc, _ = run([BIN, "replay", tmpf], timeout=600)
        return rc == 1

    chunk = max(1, len(pre) // 2)
    while chunk >= 1 and time.time() < t_end and tests < max_tests:
        i = 0
        progress = False
        while i < len(pre) and time.time() < t_end and tests < max_tests:
            cand = pre[:i] + pre[i + chunk:]
            if still(cand):
                pre = cand
                progress = True
            else:
                i += chunk
        if chunk == 1 and not progress:
            break
        chunk = chunk // 2 if chunk > 1 else (1 if progress else 0)
    if os.path.exists(tmpf):
        os.remove(tmpf)
    rf["prefix_run_indexes"] = pre
    rf.setdefault("notes", []).append(f"prefix of earlier runs minimised from {before} to {len(pre)} run(s) in {tests} fresh-process replays")
    out = path.replace(".json", ".min.json")
    json.dump(rf, open(out, "w"), indent=1)
    return out


def scenario_of(seed, salt, idx):
    rc, out = run([BIN, "scenario", "--seed", str(seed), "--salt", str(salt), "--run-index", str(idx)], timeout=120)
    try:
        return json.loads(out.strip().splitlines()[-1]) if rc == 0 else None
    except Exception:  # noqa
        return None


def report(prop, raws, limit=3):
    """Prints VIOLATION / KNOWN-FINDING lines. Returns number of unlisted violations."""
    known = load_known()
    unlisted = 0
    unconfirmed = 0
    seen = set()
    processed = 0
    for raw in raws:
        if unlisted >= limit or processed >= 4 * limit:
            break
        processed += 1
        final, alone, rf = process_violation(prop, raw)
        sig = (rf.get("class"), json.dumps(rf.get("scenario") or rf.get("aisle"), sort_keys=True))
        if sig in seen:
            continue
        seen.add(sig)
        if not rf.get("_confirmed", True):
            unconfirmed += 1
            log(f"NOTE: a {rf.get('class')} seen under simulated threads was not confirmed on one thread, re-entrantly or on real OS threads "
                f"({(rf.get('notes') or [''])[-1]}); simulated threads share thread-locals, so this is not reported as a violation. File: {final}")
            continue
        k = next((e for e in known if matches_known(e, rf)), None)
        v0 = (rf.get("violations") or [{}])[0]
        if k is not None:
            log(f"KNOWN-FINDING: property={prop} {k.get('what', '')}")
        else:
            unlisted += 1
            log(f"  class={rf.get('class')} phase={v0.get('phase')} key={v0.get('key')}")
            log(f"  {v0.get('detail', '')[:600]}")
            for n in rf.get("notes", []):
                log(f"  note: {n}")
            log(f"VIOLATION property={prop} replay={final}")
    if len(raws) > processed:
        log(f"  ({len(raws) - processed} further raw violation(s) not processed)")
    return unlisted


def write_evidence(prop, tier, seed, level, coverage, assumptions, wall, nviol):
    os.makedirs(EVIDENCE, exist_ok=True)
    ev = {"property_id": prop, "tier": tier, "seed": seed, "level": level, "coverage": coverage,
          "assumptions": assumptions, "wall_s": round(wall, 2), "violations": nviol}
    json.dump(ev, open(os.path.join(EVIDENCE, f"{prop}.json"), "w"), indent=1)


# --------------------------------------------------------------------------- C18

C18_PLAN = {
    "quick": dict(runs=16000, storm_words=4000000, big_inputs=5, depth_chains=256, depth_max=300, scheds=4, cold=128, selftest=192, miri_light=8, miri_full=2, miri_conv=16, shadow=4000, xl_den=4000, budget=900),
    "thorough": dict(runs=400000, storm_words=300000000, big_inputs=40, depth_chains=4096, depth_max=1100, scheds=4, cold=2048, selftest=2048, miri_light=192, miri_full=48, miri_conv=192, miri_fit=32, shadow=200000, xl_den=1500, budget=7200),
}


def selftest(seed, n, raws, layouts=None, quiet=False, only_run=None):
    """Determinism of the simulator itself (O4): the same runs executed in different
    process layouts must give identical logs. First difference at an S (scheduler /
    seam) line with identical history => harness bug => exit 2. First difference at
    an O (library-produced observation) line => the library's output depended on
    something other than its inputs => C18 violation."""
    layouts = layouts or [1, 3, 8]
    logs = {}
    b = Batch("selftest")
    # The second layout also runs in a different process ENVIRONMENT (locale, time zone, colour and
    # terminal variables, working directory): results may depend on the input, the extensions and
    # the converter only, not on any of these.
    other_env = dict(ENV)
    other_env.update({"LANG": "de_DE.UTF-8", "LC_ALL": "de_DE.UTF-8", "LC_NUMERIC": "de_DE.UTF-8", "TZ": "Pacific/Kiritimati", "NO_COLOR": "1",
                      "CLICOLOR": "0", "CLICOLOR_FORCE": "0", "TERM": "dumb", "COLUMNS": "20", "LINES": "5", "HOME": "/nonexistent", "RUST_BACKTRACE": "0",
                      "RUST_LOG": "trace", "COOKLANG_DEBUG": "1"})
    # ... plus whatever looks like the name of an environment variable in the library's own source
    import re as _re
    for root, _d, names in os.walk(os.path.join(REPO, "src")):
        for nme in names:
            if nme.endswith(".rs") and nme != "verif_seam.rs":
                for lit in _re.findall(r'"([A-Z][A-Z0-9_]{2,47})"', open(os.path.join(root, nme), errors="replace").read()):
                    if "_" in lit or len(lit) >= 6:
                        other_env.setdefault(lit, "1")
    # ... and in a working directory that contains recipe files named like some ingredient names
    # of the workload (a result may not depend on what exists in the file system either)
    fsenv = os.path.join(b.dir, "fsenv")
    for rel in ("pasta/spaghetti.cook", "salt/pepper.cook", "sauces/tomato sauce.cook", "pasta/spaghetti", "flour.cook", "water.cook"):
        os.makedirs(os.path.dirname(os.path.join(fsenv, rel)), exist_ok=True)
        open(os.path.join(fsenv, rel), "w").write("Boil @water{1%l}.\n")
    for li, W in enumerate(layouts):
        for w in range(W):
            dump = os.path.join(b.dir, f"log-{W}-{w}.txt")
            # ... on ONE cpu (std::thread::available_parallelism() is 1 there) with a terminal as stdin /
            # stdout / stderr (is_terminal() is true there): neither is an input of a parse
            pin = ("taskset", "-c", str(sorted(os.sched_getaffinity(0))[0])) if li == 1 and shutil.which("taskset") else ()
            b.spawn(["c18", "--seed", str(seed), "--salt", "4", "--runs", str(n), "--worker", str(w), "--workers", str(W),
                     "--scheds", "2", "--dump-log", dump], f"st-{W}-{w}", env=other_env if li == 1 else None, cwd=fsenv if li == 1 else None,
                    prefix=pin, tty=(li == 1))
    outs, hung = b.wait(1200)
    if hung:
        die(f"selftest workers hung: {hung}")
    found = 0
    for o in outs:
        raws.extend(o["violations"])
        found += len(o["violations"])
    if found:
        # workers stop at violations, so their logs are not comparable; the violations
        # themselves are reported by the caller
        b.cleanup()
        return {"seeds": n, "layouts": layouts, "processes": sum(layouts), "log_items_compared": 0, "divergences": 0,
                "skipped": f"{found} violation(s) found by the selftest workers themselves"}
    for W in layouts:
        runs = {}
        for w in range(W):
            cur = None
            for line in open(os.path.join(b.dir, f"log-{W}-{w}.txt")):
                line = line.rstrip("\n")
                if line.startswith("RUN "):
                    cur = int(line.split()[1])
                    runs[cur] = []
                else:
                    runs[cur].append(line)
        logs[W] = runs
    base = logs[layouts[0]]
    divergences = 0
    trace_only = 0
    items = 0
    for W in layouts[1:]:
        for i, lines in logs[W].items():
            if only_run is not None and i != only_run:
                continue
            ref = base.get(i)
            if ref is None:
                continue  # a worker that found violations stops early; they are reported from `raws`
            items += len(lines)
            if lines != ref:
                k = next((j for j in range(min(len(lines), len(ref))) if lines[j] != ref[j]), min(len(lines), len(ref)))
                a = ref[k] if k < len(ref) else "<end>"
                c = lines[k] if k < len(lines) else "<end>"
                # What differs first?
                #  - results (R lines, compared as a set because the interleaving may differ): the
                #    library's *results* depended on the history of the process => C18 violation;
                #  - only tracing emission (O span / O event and the S trace seams they create): the
                #    library emitted different spans, e.g. a correct memo that skips work. C18 does not
                #    speak about tracing; tolerated and counted;
                #  - an S line or anything else with identical history => harness nondeterminism => exit 2.
                # R line: "R <task> <depth> <operation key hash> <result hash>". The same operation key
                # must have the same result hash in both processes; which task ran it, and whether a
                # planned nested operation fired at all (they are placed at the n-th tracing seam), may
                # legitimately differ when tracing emission differs.
                def rmap(ls):
                    m = {}
                    for x in ls:
                        if x.startswith("R "):
                            _, _t, _d, k_, h_ = x.split()
                            m.setdefault(k_, set()).add(h_)
                    return m
                ma, mc = rmap(ref), rmap(lines)
                ra = sorted(f"{k_}:{sorted(v)}" for k_, v in ma.items() if k_ in mc and mc[k_] != v)
                rc_ = sorted(f"{k_}:{sorted(mc[k_])}" for k_, v in ma.items() if k_ in mc and mc[k_] != v)
                def tracing_item(x):
                    return x.startswith(("O span", "O event")) or (x.startswith("S ") and x.endswith(" trace"))
                soft = tracing_item(a) or tracing_item(c)
                if ra:
                    divergences += 1
                    os.makedirs(REPLAYS, exist_ok=True)
                    p = os.path.join(REPLAYS, f"C18-crossprocess-{seed}-{i}.json")
                    da, dc = ra[:2], rc_[:2]
                    json.dump({"property": "C18", "class": "cross-process-divergence", "violations": [
                        {"class": "cross-process-divergence", "key": "", "phase": "selftest",
                         "detail": f"run {i}: library-produced results differ between a 1-process and a {W}-process layout (same run seed, different process history): {da} vs {dc}; first differing log item {k}: {a!r} vs {c!r}"}],
                        "provenance": {"verif_seed": seed, "salt": 4, "run_index": i, "run_seed": 0, "worker": 0, "workers": W, "sched_index": 0},
                        "scenario_of_run": scenario_of(seed, 4, i),
                        "notes": [f"re-run: cooksim c18 --seed {seed} --salt 4 --runs {n} --scheds 2 --workers 1 --worker 0 --dump-log A.txt and the same with --workers {W} --worker {i % W} --dump-log B.txt; compare the blocks of RUN {i}"]},
                        open(p, "w"), indent=1)
                    if divergences <= 3 and not quiet:
                        log(f"  cross-process divergence in library-produced results, run {i}: {da} vs {dc}")
                        log(f"VIOLATION property=C18 replay={p}")
                elif soft:
                    trace_only += 1
                else:
                    die(f"selftest: harness nondeterminism, run {i} item {k}: {a!r} vs {c!r} (layouts 1 vs {W})")
    b.cleanup()
    return {"seeds": n, "layouts": layouts, "processes": sum(layouts), "log_items_compared": items, "divergences": divergences,
            "runs_differing_only_in_tracing_emission": trace_only}


def affinity_phase(seed, n):
    """Big inputs (140 KB ... 1.1 MB: above any plausible threshold for helper threads, chunked or
    parallel scanning) fingerprinted by `cooksim bigfp` in three fresh processes that may run on one
    CPU, on two CPUs and on all of them. The lines must be identical. Returns (violations, stats)."""
    cpus = sorted(os.sched_getaffinity(0))
    if not shutil.which("taskset") or len(cpus) < 3:
        return 0, {"skipped": "taskset missing or fewer than 3 CPUs available"}
    layouts = [("all", ()), ("one", ("taskset", "-c", str(cpus[0]))), ("two", ("taskset", "-c", f"{cpus[0]},{cpus[1]}"))]
    procs = []
    for name, prefix in layouts:
        procs.append((name, subprocess.Popen([*prefix, BIN, "bigfp", "--seed", str(seed), "--n", str(n)], env=sim_env(), stdout=subprocess.PIPE, stderr=subprocess.PIPE, text=True)))
    outs = {}
    for name, p in procs:
        try:
            o, e = p.communicate(timeout=1800)
        except subprocess.TimeoutExpired:
            p.kill()
            die(f"cooksim bigfp ({name}) did not finish")
        if p.returncode != 0:
            die(f"cooksim bigfp ({name}) exited with {p.returncode}: {e[-800:]}")
        outs[name] = [l for l in o.splitlines() if l.strip()]
    base = outs["all"]
    viol = 0
    for name in ("one", "two"):
        if outs[name] != base:
            diff = [(a, b) for a, b in zip(base, outs[name]) if a != b][:3]
            idx = diff[0][0].split("\t")[0] if diff else "0"
            os.makedirs(REPLAYS, exist_ok=True)
            pth = os.path.join(REPLAYS, f"C18-cpu-dependence-{seed}-{name}.json")
            json.dump({"property": "C18", "class": "cpu-dependence",
                       "provenance": {"verif_seed": seed, "salt": 0, "run_index": int(idx), "run_seed": 0, "worker": 0, "workers": 1, "sched_index": 0},
                       "violations": [{"class": "cpu-dependence", "key": name, "phase": "affinity",
                                       "detail": f"the same big input gives different results in a process that may use all CPUs and in one restricted to {name} CPU(s): {diff}"}],
                       "cpus": {"one": cpus[0], "two": [cpus[0], cpus[1]]},
                       "notes": [f"replay: {BIN} bigfp --seed {seed} --n {n} --only {idx}  versus  taskset -c {cpus[0]}{'' if name == 'one' else ',' + str(cpus[1])} {BIN} bigfp --seed {seed} --n {n} --only {idx}"]},
                      open(pth, "w"), indent=1)
            viol += 1
            log(f"  big input {idx}: results depend on the CPUs the process may use (all vs {name}): {diff[:1]}")
            log(f"VIOLATION property=C18 replay={pth}")
    sizes = sorted({int(l.split("\t")[1]) for l in base})
    return viol, {"big_inputs": n, "bytes": sizes, "fingerprints_per_process": len(base), "processes": [x[0] for x in layouts]}


def approx_phase(seed, step):
    """Number::new_approx over a dense grid of values x every parameter set in three fresh processes
    that make the calls in ascending, descending and shuffled order; the sorted lines must be
    identical: an answer may not depend on which calls came before (the process-wide fraction table
    and whatever is put in front of it). Returns (violations, stats)."""
    procs = []
    for order in ("asc", "desc", "shuffled"):
        procs.append((order, subprocess.Popen([BIN, "approx", "--order", order, "--seed", str(seed), "--step", str(step)], env=sim_env(), stdout=subprocess.PIPE, stderr=subprocess.PIPE, text=True)))
    outs = {}
    for order, pr in procs:
        try:
            o, e = pr.communicate(timeout=1800)
        except subprocess.TimeoutExpired:
            pr.kill()
            die(f"cooksim approx ({order}) did not finish")
        if pr.returncode != 0:
            die(f"cooksim approx ({order}) exited with {pr.returncode}: {e[-800:]}")
        outs[order] = sorted(l for l in o.splitlines() if l.strip())
    viol = 0
    base = outs["asc"]
    for order in ("desc", "shuffled"):
        if outs[order] != base:
            a, b = set(base), set(outs[order])
            diff = sorted(a - b)[:3], sorted(b - a)[:3]
            os.makedirs(REPLAYS, exist_ok=True)
            pth = os.path.join(REPLAYS, f"C18-approx-order-{seed}-{order}.json")
            json.dump({"property": "C18", "class": "history-dependence", "approx_orders": ["asc", order], "approx_step": step,
                       "provenance": {"verif_seed": seed, "salt": 0, "run_index": 0, "run_seed": 0, "worker": 0, "workers": 1, "sched_index": 0},
                       "violations": [{"class": "history-dependence", "key": "new_approx", "phase": "approx",
                                       "detail": f"Number::new_approx gives different answers for the same arguments depending on the order of the calls in the process (ascending vs {order}): only ascending {diff[0]}, only {order} {diff[1]}"}],
                       "notes": [f"replay: {BIN} approx --order asc --seed {seed} --step {step} | sort  versus  {BIN} approx --order {order} --seed {seed} --step {step} | sort"]},
                      open(pth, "w"), indent=1)
            viol += 1
            log(f"  new_approx: answers depend on the order of the calls (ascending vs {order}): {diff[0][:1]} vs {diff[1][:1]}")
            log(f"VIOLATION property=C18 replay={pth}")
    return viol, {"calls_per_process": len(base), "orders": ["asc", "desc", "shuffled"], "grid_step_1e-4": step}


def miri_run(shape, seeds, tier_budget):
    """cookmiri under Miri: real std threads, guard off. Returns (count_ok, failures)."""
    d = os.path.join(HERE, "cookmiri")
    if not seeds:
        return 0, []
    lock = os.path.join(d, "Cargo.lock")
    if not os.path.exists(lock):
        shutil.copy(os.path.join(REPO, "Cargo.lock"), lock)
    fails = []
    ok = 0
    procs = []
    env = dict(ENV)
    env["CARGO_TARGET_DIR"] = os.path.join(TARGET, "miri")
    # build once (sequentially) so that parallel invocations only interpret
    rc, out = run(["cargo", "+nightly", "miri", "run", "--offline", "--", "build-only"], cwd=d, timeout=1800,
                  env={**env, "MIRIFLAGS": "-Zmiri-seed=0"})
    if rc != 0:
        tail = out[-3000:]
        if "Undefined Behavior" in out or "data race" in out.lower():
            fails.append(("build-only", 0, tail))
            return 0, fails
        die(f"cookmiri does not build/run under Miri: {tail}")
    rates = ["0.02", "0.1", "0.3"]
    pending = list(seeds)
    running = []
    t_end = time.time() + tier_budget
    while pending or running:
        while pending and len(running) < NCPU:
            s = pending.pop(0)
            rate = rates[s % 3]
            e = {**env, "MIRIFLAGS": f"-Zmiri-seed={s} -Zmiri-preemption-rate={rate}"}
            p = subprocess.Popen(["cargo", "+nightly", "miri", "run", "--offline", "-q", "--", shape, str(s)], cwd=d, env=e,
                                 stdout=subprocess.PIPE, stderr=subprocess.STDOUT, text=True)
            running.append((p, s, rate, time.time()))
        time.sleep(0.05)
        still = []
        for p, s, rate, t0 in running:
            rc = p.poll()
            if rc is None:
                if time.time() > t_end:
                    p.kill()
                    out = p.communicate()[0]
                    fails.append((shape, s, f"timeout (possible deadlock/hang) rate={rate}\n{out[-1500:]}"))
                else:
                    still.append((p, s, rate, t0))
                continue
            out = p.communicate()[0]
            if rc == 0 and "COOKMIRI-OK" in out:
                ok += 1
            else:
                fails.append((shape, s, f"rate={rate} rc={rc}\n{out[-3000:]}"))
        running = still
    return ok, fails


def clean_replays(prop):
    """Replay files of earlier runs of this check are stale once it runs again."""
    import glob
    for f in glob.glob(os.path.join(REPLAYS, f"{prop}-*")):
        try:
            os.remove(f)
        except OSError:
            pass


def check_c18(tier, seed):
    t0 = time.time()
    clean_replays("C18")
    plan = C18_PLAN[tier]
    salt = {"quick": 1, "thorough": 2}[tier]
    b = build_cooksim()
    if isinstance(b, tuple):
        log("  the library builds but its public types are no longer Send + Sync (O5)")
        log(f"VIOLATION property=C18 replay={b[1]}")
        write_evidence("C18", tier, seed, "exploration", {"evaluations": 1, "distinct_nontrivial": 0, "rule": "type-level probe only; simulator could not be built", "samples": [b[1]]}, [], time.time() - t0, 1)
        return 1
    build_s = b
    log(f"[C18] built cooksim against {REPO} in {build_s:.1f}s; tier={tier} VERIF_SEED={seed}")
    raws = []
    # ---- main batch
    W = NCPU
    batch = Batch("c18")
    for w in range(W):
        batch.spawn(["c18", "--seed", str(seed), "--salt", str(salt), "--runs", str(plan["runs"]), "--worker", str(w),
                     "--workers", str(W), "--scheds", str(plan["scheds"]), "--xl-den", str(plan["xl_den"])], f"w{w}", progress=True)
    outs, hung = batch.wait(plan["budget"])
    real_hangs = 0
    sim_limited = []
    for tag, args, idx in hung:
        # A worker that stops making progress is either a real deadlock/livelock in the library or
        # an artifact of the simulator: shuttle's "threads" are coroutines on one OS thread, so a
        # blocking std primitive (a std Mutex, a Once) held across a simulated scheduling point
        # blocks that OS thread for good although real threads would merely wait. Decide by running
        # the same scenario on real OS threads (no seams, no faults) under a wall-clock limit.
        rc_rt, out_rt = (124, "") if idx is None else run([BIN, "realthreads", "--seed", str(seed), "--salt", str(salt), "--run-index", str(idx)], timeout=120)
        if rc_rt == 0:
            if not sim_limited:
                log(f"NOTE: worker {tag} stalled at run index {idx} under simulated scheduling, but the same scenario completes and matches its references on real OS threads: "
                    f"a blocking std primitive is held across a simulated scheduling point. This is a limit of the simulator, not a violation of C18 "
                    f"(further stalled workers are listed in the evidence file; the real-thread Miri runs below still apply).")
            sim_limited.append((tag, idx))
            continue
        real_hangs += 1
        p = os.path.join(REPLAYS, f"C18-hang-{seed}-{tag}.json")
        os.makedirs(REPLAYS, exist_ok=True)
        w = int(tag[1:])
        what = "also hangs on real OS threads (deadlock or livelock)" if rc_rt == 124 else f"gives different results on real OS threads: {out_rt[-600:]}"
        json.dump({"property": "C18", "class": "hang" if rc_rt == 124 else "mismatch",
                   "provenance": {"verif_seed": seed, "salt": salt, "run_index": idx if idx is not None else 0, "run_seed": 0, "worker": w, "workers": W, "sched_index": 0},
                   "violations": [{"class": "hang", "key": "", "phase": "perturbed", "detail": f"worker {tag} made no progress for {batch.stall_s}s while executing run index {idx}; the scenario {what}"}],
                   "notes": [f"replay: {BIN} realthreads --seed {seed} --salt {salt} --run-index {idx} (must finish within seconds); ./check.py replay regenerates the scenario from the provenance and runs it under the simulator"]}, open(p, "w"), indent=1)
        log(f"  worker {tag} hung at run index {idx}; the scenario {what}")
        log(f"VIOLATION property=C18 replay={p}")
    # ---- fallback: when multi-thread executions stall on a blocking std primitive held across a
    # scheduling point, everything that needs no second simulated thread still applies: the same
    # batch with ONE simulated thread per scenario (histories, faults, re-entrancy, clock, kept
    # results, reference passes), and the phases below that run on real threads or single threads
    single_thread_fallback = False
    if sim_limited and not real_hangs:
        single_thread_fallback = True
        log("[C18] re-running the main batch with one simulated thread per scenario (no second task can block behind the held primitive)")
        fb = Batch("c18single")
        for w in range(W):
            fb.spawn(["c18", "--seed", str(seed), "--salt", str(salt + 50), "--runs", str(plan["runs"]), "--worker", str(w),
                      "--workers", str(W), "--scheds", "1", "--xl-den", str(plan["xl_den"]), "--max-threads", "1"], f"w{w}", progress=True)
        outs, hung2 = fb.wait(plan["budget"])
        for tag, args, idx in hung2:
            real_hangs += 1
            p = os.path.join(REPLAYS, f"C18-hang-single-{seed}-{tag}.json")
            os.makedirs(REPLAYS, exist_ok=True)
            json.dump({"property": "C18", "class": "hang", "provenance": {"verif_seed": seed, "salt": salt + 50, "run_index": idx or 0, "run_seed": 0, "worker": int(tag[1:]), "workers": W, "sched_index": 0},
                       "violations": [{"class": "hang", "key": "", "phase": "perturbed", "detail": f"worker {tag} made no progress for {fb.stall_s}s at run index {idx} with a SINGLE simulated thread: a self-deadlock (a lock taken again by a re-entrant caller, or never released after a fault)"}]}, open(p, "w"), indent=1)
            log(f"  single-thread worker {tag} hung at run index {idx}")
            log(f"VIOLATION property=C18 replay={p}")
        batch.cleanup()
        batch = fb
    agg = dict(runs=0, executions=0, steps=0, switches=0, ops=0, ref_keys=0, overlap_execs=0, nested=0, fresh_build_runs=0,
               hash_seeds=0, maps_created=0, clock_reads=0, clock_sleeps=0, sim_time_ns=0, thread_passes=0)
    clock_seam_workers = sum(1 for o in outs if o.get("clock_seam"))
    fired, sched_kinds, threads_hist = {}, {}, {}
    seam = [0] * 5
    hash_files = {"nontrivial": [], "schedules": [], "scenarios": []}
    samples = []
    for o in outs:
        for k in agg:
            agg[k] += o.get(k, 0)
        merge_counts(fired, o["fired"])
        merge_counts(sched_kinds, o["sched_kinds"])
        merge_counts(threads_hist, o["threads_hist"])
        for i in range(5):
            seam[i] += o["seam_counts"][i]
        for k in hash_files:
            hash_files[k].append(o["_out"] + f".{k}.u64")
        raws.extend(o["violations"])
        if len(samples) < 2:
            samples.extend(o["samples"][:1])
    n_nontrivial = count_distinct(hash_files["nontrivial"])
    n_schedules = count_distinct(hash_files["schedules"])
    n_scenarios = count_distinct(hash_files["scenarios"])
    batch.cleanup()
    sim_wall = max([o["wall_s"] for o in outs], default=0.0)
    log(f"[C18] main batch ({time.time() - t0:.0f}s): {agg['runs']} scenarios, {agg['executions']} executions, {agg['steps']} seam points, "
        f"{n_schedules} distinct interleavings, {agg['overlap_execs']} with overlapping operations, faults {fired}")
    # ---- chains of nested parses: a parse that starts while 1 ... depth_max other parses are in
    # progress on its thread (each started from the caller's iterator / validator / reference check
    # of the one before) must return what it returns at top level. The coroutine stacks of the
    # simulated threads are too small for that, so the chains run on OS threads with large stacks.
    depth_stats = {"chains": 0, "parses": 0, "deepest": 0, "chains_reaching_their_depth": 0, "by_flavour": {}}
    if True:
        db = Batch("c18depth")
        for w in range(W):
            db.spawn(["depth", "--seed", str(seed * 7 + salt), "--runs", str(plan["depth_chains"]), "--max-depth", str(plan["depth_max"]), "--worker", str(w), "--workers", str(W)], f"w{w}")
        douts, dhung = db.wait(plan["budget"])
        for tag, args, idx in dhung:
            die(f"depth worker {tag} did not finish")
        for o in douts:
            for k in ("chains", "parses", "chains_reaching_their_depth"):
                depth_stats[k] += o[k]
            depth_stats["deepest"] = max(depth_stats["deepest"], o["deepest"])
            merge_counts(depth_stats["by_flavour"], o["by_flavour"])
            raws.extend(o["violations"])
            if o["samples"] and "sample" not in depth_stats:
                depth_stats["sample"] = o["samples"][0]
        db.cleanup()
        fired["nested_parse_chain"] = depth_stats["chains"]
        log(f"[C18] nesting depth ({time.time() - t0:.0f}s): {depth_stats['chains']} chains of nested parses, deepest {depth_stats['deepest']}, {depth_stats['parses']} parses")
    # ---- a storm of distinct unknown words on one parser per worker: the history axis in its cheapest
    # form (tables that fill up, spill, evict, or take a fingerprint for the key)
    storm_stats = {"words": 0, "parsers": 0}
    if True:
        sbt = Batch("c18storm")
        for w in range(W):
            sbt.spawn(["storm", "--seed", str(seed * 13 + salt), "--words", str(plan["storm_words"]), "--worker", str(w)], f"w{w}")
        souts_, shung_ = sbt.wait(plan["budget"])
        for tag, args, idx in shung_:
            die(f"storm worker {tag} did not finish")
        for o in souts_:
            storm_stats["words"] += o["words"]
            storm_stats["parsers"] += 1
            raws.extend(o["violations"])
        sbt.cleanup()
        fired["unknown_word_storm"] = storm_stats["words"]
        log(f"[C18] word storm ({time.time() - t0:.0f}s): {storm_stats['words']} distinct unknown words on {storm_stats['parsers']} parsers, probe recipes re-read every 64 words")
    # ---- CPU count / affinity on big inputs
    aff_viol, aff_stats = affinity_phase(seed, plan["big_inputs"])
    log(f"[C18] cpu affinity ({time.time() - t0:.0f}s): {aff_stats}")
    # ---- new_approx in three call orders
    apx_viol, apx_stats = approx_phase(seed, 1)
    log(f"[C18] new_approx order sweep ({time.time() - t0:.0f}s): {apx_stats}")
    # ---- shadow batch: the same simulation against a copy of the library whose std::sync
    # primitives are rewritten to shuttle's, so that every atomic / lock operation inside the
    # library is a scheduling point (races between adjacent atomics, lock-per-step protocols)
    shadow_info, shadow_err = build_shadow()
    shadow_stats = {"rewrites": shadow_info["rewrites"], "files": shadow_info["files"], "executions": 0, "scenarios": 0, "skipped": shadow_err}
    if shadow_err:
        log(f"[C18] shadow batch skipped: {shadow_err}")
    else:
        sb = Batch("c18shadow")
        for w in range(W):
            sb.spawn(["c18", "--seed", str(seed), "--salt", str(100 + salt), "--runs", str(plan["shadow"]), "--worker", str(w),
                      "--workers", str(W), "--scheds", str(plan["scheds"])], f"w{w}", progress=True, binary=SHADOW_BIN)
        souts, shung = sb.wait(plan["budget"], tolerate_crash=True)
        for tag, args, idx, rc_c, errtxt in sb.crashed:
            # shuttle aborts the whole process when all simulated tasks are blocked. With the library's
            # locks rewritten to shuttle's that also happens for a lock taken re-entrantly (a nested
            # parse from a callback) - a hang for re-entrant callers, not something C18 speaks about.
            # The same run on real OS threads (no re-entrancy, normal build) decides.
            rc_rt, out_rt = (0, "") if idx is None else run([BIN, "realthreads", "--seed", str(seed), "--salt", str(100 + salt), "--run-index", str(idx)], timeout=120)
            if rc_rt == 0:
                log(f"NOTE: shadow worker {tag} was aborted by the simulator at run index {idx} ({'deadlock of simulated tasks' if 'deadlock' in errtxt else 'abort'}); "
                    f"the same scenario completes and matches its references on real OS threads, so this is not reported (a lock taken re-entrantly or held across a scheduling point).")
                shadow_stats.setdefault("aborted", []).append(f"{tag}@{idx}")
            else:
                os.makedirs(REPLAYS, exist_ok=True)
                p = os.path.join(REPLAYS, f"C18-hang-shadow-{seed}-{tag}.json")
                cls_rt = "hang" if rc_rt == 124 else "mismatch"
                json.dump({"property": "C18", "class": cls_rt, "provenance": {"verif_seed": seed, "salt": 100 + salt, "run_index": idx or 0, "run_seed": 0, "worker": 0, "workers": W, "sched_index": 0},
                           "notes": [f"replay (real threads, not deterministic): {BIN} realthreads --seed {seed} --salt {100 + salt} --run-index {idx}"],
                           "violations": [{"class": cls_rt, "key": "", "phase": "shadow", "detail": f"the simulator found all tasks blocked at run index {idx} and the scenario {'also hangs' if rc_rt == 124 else 'gives different results'} on real OS threads: {out_rt[-400:]}"}]}, open(p, "w"), indent=1)
                log(f"  shadow worker {tag}: deadlock at run index {idx}, confirmed on real OS threads")
                log(f"VIOLATION property=C18 replay={p}")
                real_hangs += 1
        for o in souts:
            shadow_stats["executions"] += o["executions"]
            shadow_stats["scenarios"] += o["runs"]
            shadow_stats["runs_discarded_after_a_panic_inside_the_simulation"] = shadow_stats.get("runs_discarded_after_a_panic_inside_the_simulation", 0) + o.get("tainted_runs", 0)
            merge_counts(fired, o["fired"])
            for v in o["violations"]:
                v["engine"] = "shadow"
                v["shadow_thread_locals"] = shadow_info["thread_locals_left"]
                raws.append(v)
        for tag, args, idx in shung:
            log(f"NOTE: shadow worker {tag} stalled at run index {idx}: under the shadow build a lock held across a scheduling point is a deadlock of the simulated schedule only if real threads could deadlock too; "
                f"re-run: {SHADOW_BIN} {' '.join(args)}")
            shadow_stats.setdefault("stalled", []).append(f"{tag}@{idx}")
        sb.cleanup()
        log(f"[C18] shadow batch ({time.time() - t0:.0f}s): {shadow_info['rewrites']} rewrite(s) in {shadow_info['files']}, {shadow_stats['scenarios']} scenarios, {shadow_stats['executions']} executions")
        if not shadow_stats["executions"]:
            shadow_stats["no_coverage"] = True
            log("NOTE: the shadow build ran but completed no execution (see the NOTE lines above): the library's lock / atomic operations were NOT explored as scheduling points in this run; "
                "Miri's real-thread runs are the only schedule coverage of those primitives here")
    # ---- cold-start runs: one scenario per fresh process, each executed twice - once with
    # the reference keys observed in forward and once in reverse order. Whatever the library
    # builds lazily is first touched inside a perturbed scenario, and process-wide state keyed
    # imprecisely shows up as two fresh processes disagreeing on a reference.
    cold_outs = []
    n_cold = plan["cold"]
    cold_extra = ["--max-threads", "1"] if sim_limited else []
    cold_pairs_compared = 0
    cold_div = 0
    i = 0
    while i < n_cold:
        chunk = Batch(f"c18cold{i}")
        for j in range(i, min(i + 2 * NCPU, n_cold)):
            for order in ("fwd", "rev"):
                chunk.spawn(["c18", "--seed", str(seed), "--salt", "3", "--start", str(j), "--runs", "1", "--scheds", "2",
                             "--ref-order", order, "--dump-refs", os.path.join(chunk.dir, f"refs-{j}-{order}.txt"), *cold_extra], f"c{j}{order}", progress=True)
        o, h = chunk.wait(600)
        for tag, args, idx in h:
            p = os.path.join(REPLAYS, f"C18-hang-cold-{seed}-{tag}.json")
            json.dump({"property": "C18", "class": "hang", "provenance": {"verif_seed": seed, "salt": 3, "run_index": idx or 0, "run_seed": 0, "worker": 0, "workers": 1, "sched_index": 0},
                       "violations": [{"class": "hang", "key": "", "phase": "cold", "detail": f"cold-start process {tag} made no progress for {chunk.stall_s}s"}]}, open(p, "w"), indent=1)
            log(f"VIOLATION property=C18 replay={p}")
            cold_div += 1
        cold_outs.extend(o)
        for j in range(i, min(i + 2 * NCPU, n_cold)):
            try:
                fa = sorted(l.rstrip("\n").split("\t", 2)[1:] for l in open(os.path.join(chunk.dir, f"refs-{j}-fwd.txt")))
                fb = sorted(l.rstrip("\n").split("\t", 2)[1:] for l in open(os.path.join(chunk.dir, f"refs-{j}-rev.txt")))
            except OSError:
                continue
            cold_pairs_compared += 1
            if fa != fb:
                cold_div += 1
                diff = [x for x in fa if x not in fb][:3]
                p = os.path.join(REPLAYS, f"C18-cold-order-{seed}-{j}.json")
                json.dump({"property": "C18", "class": "history-dependence",
                           "provenance": {"verif_seed": seed, "salt": 3, "run_index": j, "run_seed": 0, "worker": 0, "workers": 1, "sched_index": 0},
                           "violations": [{"class": "history-dependence", "key": str(diff), "phase": "cold",
                                           "detail": f"two fresh processes that observe the reference keys of run {j} in forward and in reverse order disagree on {len([x for x in fa if x not in fb])} fingerprint(s): {diff}"}],
                           "scenario_of_run": scenario_of(seed, 3, j),
                           "notes": [f"replay: {BIN} c18 --seed {seed} --salt 3 --start {j} --runs 1 --ref-order fwd --dump-refs A.txt ; same with --ref-order rev --dump-refs B.txt ; sort and diff A.txt B.txt"]},
                          open(p, "w"), indent=1)
                if cold_div <= 3:
                    log(f"  cold-start run {j}: clean references depend on the order in which they are first observed in a fresh process: {diff}")
                    log(f"VIOLATION property=C18 replay={p}")
        chunk.cleanup()
        i += 2 * NCPU
    cold_execs = sum(o["executions"] for o in cold_outs)
    for o in cold_outs:
        raws.extend(o["violations"])
        merge_counts(fired, o["fired"])
    log(f"[C18] cold-start ({time.time() - t0:.0f}s): {len(cold_outs)} fresh processes, {cold_execs} executions, {cold_pairs_compared} forward/reverse reference tables compared")
    # ---- determinism selftest / cross-process oracle (O4)
    if sim_limited:
        st = {"seeds": 0, "divergences": 0, "skipped": "simulated scheduling is blocked by a std primitive held across a scheduling point (see NOTE lines)"}
    else:
        st = selftest(seed, plan["selftest"], raws)
    log(f"[C18] selftest ({time.time() - t0:.0f}s): {st}")
    # ---- Miri
    miri = {"light_seeds": 0, "full_seeds": 0, "ub_reports": 0, "failures": []}
    miri_viol = 0
    if os.environ.get("VERIF_SKIP_MIRI") != "1":
        base = (seed * 1000003) % 1000000
        lo, lf = miri_run("light", [base + k for k in range(plan["miri_light"])], plan["budget"])
        fo, ff = miri_run("full", [base + 5000 + k for k in range(plan["miri_full"])], plan["budget"])
        co, cf = miri_run("conv", [base + 9000 + k for k in range(plan["miri_conv"])], plan["budget"])
        fi, fif = miri_run("fit", [base + 13000 + k for k in range(plan.get("miri_fit", 0))], plan["budget"])
        miri["light_seeds"], miri["full_seeds"], miri["conv_seeds"], miri["fit_seeds"] = lo, fo, co, fi
        for shape, s, txt in lf + ff + cf + fif:
            miri_viol += 1
            ub = "Undefined Behavior" in txt
            miri["ub_reports"] += ub
            os.makedirs(REPLAYS, exist_ok=True)
            p = os.path.join(REPLAYS, f"C18-miri-{shape}-{s}.json")
            rate = ["0.02", "0.1", "0.3"][s % 3]
            json.dump({"property": "C18", "class": "miri-ub" if ub else "miri-mismatch", "violations": [{"class": "miri-ub" if ub else "miri-mismatch", "key": shape, "phase": "miri", "detail": txt[-2500:]}],
                       "notes": [f"replay: cd /verif/cookmiri && MIRIFLAGS='-Zmiri-seed={s} -Zmiri-preemption-rate={rate}' cargo +nightly miri run --offline -- {shape} {s}"]}, open(p, "w"), indent=1)
            if miri_viol <= 3:
                log(f"  Miri {shape} seed {s}: {'undefined behaviour' if ub else 'mismatch / failure'}")
                log("  " + txt.strip().splitlines()[-1][:300] if txt.strip() else "")
                log(f"VIOLATION property=C18 replay={p}")
        log(f"[C18] Miri ({time.time() - t0:.0f}s): {lo} light + {fo} full + {co} conv seeds clean, {miri_viol} failing")
    unlisted = report("C18", raws) + real_hangs + st["divergences"] + miri_viol + cold_div + aff_viol + apx_viol
    wall = time.time() - t0
    execs = agg["executions"] + cold_execs + shadow_stats["executions"]
    miri_ok = miri.get("light_seeds", 0) + miri.get("full_seeds", 0) + miri.get("conv_seeds", 0) + miri.get("fit_seeds", 0)
    coverage = {
        "evaluations": execs + miri_ok,
        "distinct_nontrivial": n_nontrivial + miri_ok,
        "rule": "one evaluation = one simulated execution (scenario x schedule) checked by O1/O2 in three phases; scenarios are generated from mix(VERIF_SEED, tier, index); "
                "an execution counts as non-trivial if >= 2 tasks were simultaneously inside an operation or >= 1 fault fired; distinct = distinct hash of (scenario JSON, (task, seam) sequence), counted over the main batch only (cold-start and selftest executions are evaluated but not counted as distinct); each clean Miri seed is one more evaluation and one more distinct non-trivial case (>= 2 real threads behind a barrier under a distinct seeded schedule)",
        "samples": samples,
        "exhaustive": False,
        "scenarios": agg["runs"],
        "distinct_scenarios": n_scenarios,
        "distinct_interleavings": n_schedules,
        "interleaving_measure": "hash of the sequence of (task id, seam kind) at every seam point of the perturbed phase",
        "cold_start_processes": len(cold_outs),
        "cold_start_reference_order_pairs": cold_pairs_compared,
        "sched_steps_total": agg["steps"],
        "context_switches_total": agg["switches"],
        "operations": agg["ops"],
        "reference_keys": agg["ref_keys"],
        "seam_points": dict(zip(["iter", "cb", "trace", "write", "op"], seam)),
        "faults_fired": fired,
        "scheduler_kinds": sched_kinds,
        "threads_per_scenario": threads_hist,
        "probes": {"overlap_executions": agg["overlap_execs"], "nested_operations": agg["nested"], "fresh_build_runs": agg["fresh_build_runs"],
                   "library_clock_reads_under_simulated_time": agg["clock_reads"], "library_sleeps_under_simulated_time": agg["clock_sleeps"]},
        "clock_seam": {"workers_with_the_shim_loaded": clock_seam_workers, "of": len(outs),
                       "what": "libc clock reads and sleeps of the worker processes are interposed (LD_PRELOAD /verif/simclock); reference, perturbed and post phases run under discrete simulated time "
                               "(fixed start instant, advance per read), the ambient reference pass and clock_jump faults change date and speed of time; the read counter shows whether the library consulted the clock at all"},
        "reference_phases_with_other_os_thread_pass": agg["thread_passes"] + sum(o.get("thread_passes", 0) for o in cold_outs),
        "nesting_depth": depth_stats,
        "cpu_affinity": aff_stats,
        "unknown_word_storm": storm_stats,
        "new_approx_order_sweep": apx_stats,
        "hash_seeds": agg["hash_seeds"],
        "seamed_maps_created": agg["maps_created"],
        "miri": miri,
        "shadow_build": shadow_stats,
        "selftest": st,
        "simulator_limited_by_blocking_primitive": [f"{t}@{i}" for t, i in sim_limited],
        "single_thread_fallback": single_thread_fallback,
        "runs_per_hour": int(execs / max(sim_wall, 0.001) * 3600),
        "seeds_per_hour": int(agg["runs"] / max(sim_wall, 0.001) * 3600),
        "simulated_time_covered_s": round(agg["sim_time_ns"] / 1e9, 3),
        "simulated_time": "the library reads no clock (probe library_clock_reads_under_simulated_time counts the reads made under the clock seam); simulated time therefore only advances through injected clock jumps and stalls, and scheduling steps are reported instead",
        "real_vs_stub": REAL_VS_STUB,
        "build_s": round(build_s, 1),
    }
    write_evidence("C18", tier, seed, "exploration", coverage,
                   ["shuttle's coroutine scheduler and cooksim's SimScheduler make every scheduling choice; code that uses std::sync/std::thread directly is only seen by cookmiri",
                    "std::sync::LazyLock is trusted to be atomic in cooksim (its racy initialisation is exercised under Miri)",
                    "a clean batch is evidence, not proof: schedules, histories and fault positions are sampled"],
                   wall, unlisted)
    log(f"[C18] {execs} executions in {wall:.1f}s; violations: {unlisted}")
    return 1 if unlisted else 0


# --------------------------------------------------------------------------- C11

C11_PLAN = {
    "quick": dict(runs=400000, miri_aisle=("aislelight", 2), enum_files=200, exh_len=7, wide_len=5, collide_files=128, budget=600),
    "thorough": dict(runs=30000000, miri_aisle=("aisle", 32), enum_files=8000, exh_len=11, wide_len=8, collide_files=8192, budget=5400),
}


def check_c11(tier, seed):
    t0 = time.time()
    clean_replays("C11")
    plan = C11_PLAN[tier]
    salt = {"quick": 11, "thorough": 12}[tier]
    b = build_cooksim()
    if isinstance(b, tuple):
        die("cooksim does not build (Send/Sync regression is reported by the C18 check)")
    log(f"[C11] built cooksim against {REPO} in {b:.1f}s; tier={tier} VERIF_SEED={seed}")
    W = NCPU
    batch = Batch("c11")
    for w in range(W):
        batch.spawn(["c11", "--mode", "random", "--seed", str(seed), "--salt", str(salt), "--runs", str(plan["runs"]),
                     "--worker", str(w), "--workers", str(W)], f"r{w}")
        batch.spawn(["c11", "--mode", "enum-faults", "--seed", str(seed), "--salt", str(salt), "--runs", str(plan["enum_files"]),
                     "--worker", str(w), "--workers", str(W)], f"e{w}")
        batch.spawn(["c11", "--mode", "enum-dups", "--seed", str(seed), "--runs", "1000" if tier == "thorough" else "10",
                     "--worker", str(w), "--workers", str(W)], f"d{w}")
        batch.spawn(["c11", "--mode", "enum-lens", "--seed", str(seed), "--runs", "1000" if tier == "thorough" else "10",
                     "--worker", str(w), "--workers", str(W)], f"l{w}")
        batch.spawn(["c11", "--mode", "enum-first", "--seed", str(seed), "--runs", "1000" if tier == "thorough" else "10",
                     "--worker", str(w), "--workers", str(W)], f"f{w}")
        batch.spawn(["c11", "--mode", "collide", "--seed", str(seed), "--runs", str(plan["collide_files"]), "--names", "1000000",
                     "--worker", str(w), "--workers", str(W)], f"c{w}")
        batch.spawn(["c11", "--mode", "exhaustive", "--alphabet", "ascii7", "--len", str(plan["exh_len"]),
                     "--worker", str(w), "--workers", str(W)], f"x{w}")
        batch.spawn(["c11", "--mode", "exhaustive", "--alphabet", "wide", "--len", str(plan["wide_len"]),
                     "--worker", str(w), "--workers", str(W)], f"y{w}")
        batch.spawn(["c11", "--mode", "exhaustive", "--alphabet", "dict", "--len", str(plan["wide_len"] - 1),
                     "--worker", str(w), "--workers", str(W)], f"z{w}")
    outs, hung = batch.wait(plan["budget"])
    raws = []
    for tag, args, _idx in hung:
        p = os.path.join(REPLAYS, f"C11-hang-{seed}-{tag}.json")
        os.makedirs(REPLAYS, exist_ok=True)
        json.dump({"property": "C11", "class": "hang", "violations": [{"class": "hang", "key": "", "phase": "c11", "detail": f"worker exceeded {plan['budget']}s; args {args}"}]}, open(p, "w"), indent=1)
        log(f"VIOLATION property=C11 replay={p}")
    agg = dict(runs=0, executions=0, parsed_ok=0, parse_err=0, ops=0, lookups_checked=0, enumerated_fault_points=0, enumerated_dup_positions=0, exhaustive_strings=0, collide_names=0)
    fired, err_kinds = {}, {}
    collide_files = sum(o["runs"] for o in outs if o.get("collide_names"))
    nt_files = []
    samples = []
    for o in outs:
        for k in agg:
            agg[k] += o[k]
        merge_counts(fired, o["fired"])
        merge_counts(err_kinds, o["err_kinds"])
        nt_files.append(o["_out"] + ".nontrivial.u64")
        raws.extend(o["violations"])
        if len(samples) < 4 and o["samples"]:
            samples.append(o["samples"][0])
    n_nontrivial = count_distinct(nt_files)
    batch.cleanup()
    sim_wall = max([o["wall_s"] for o in outs], default=0.0)
    # ---- Miri over aisle::parse / write / lookup: the error spans come from pointer arithmetic
    # in an `unsafe` block; Miri checks provenance and bounds of every such computation, which a
    # check of the resulting numbers cannot do (single-threaded; the seed varies addresses and
    # the sampled strings)
    miri_aisle = {"shape": plan["miri_aisle"][0], "seeds": 0, "failures": 0, "skipped": os.environ.get("VERIF_SKIP_MIRI") == "1"}
    miri_viol = 0
    if not miri_aisle["skipped"]:
        shape, nseeds = plan["miri_aisle"]
        base = (seed * 7919) % 100000
        okc, fails = miri_run(shape, [base + k for k in range(nseeds)], plan["budget"])
        miri_aisle["seeds"] = okc
        for shp, s_, txt in fails:
            miri_viol += 1
            ub = "Undefined Behavior" in txt
            os.makedirs(REPLAYS, exist_ok=True)
            pth = os.path.join(REPLAYS, f"C11-miri-{shp}-{s_}.json")
            rate = ["0.02", "0.1", "0.3"][s_ % 3] if isinstance(s_, int) else "0.1"
            json.dump({"property": "C11", "class": "miri-ub" if ub else "miri-mismatch", "violations": [{"class": "miri-ub" if ub else "miri-mismatch", "key": shp, "phase": "miri", "detail": txt[-2500:]}],
                       "notes": [f"replay: cd /verif/cookmiri && MIRIFLAGS='-Zmiri-seed={s_} -Zmiri-preemption-rate={rate}' cargo +nightly miri run --offline -- {shp} {s_}"]}, open(pth, "w"), indent=1)
            if miri_viol <= 3:
                log(f"  Miri {shp} seed {s_}: {'undefined behaviour' if ub else 'mismatch / failure'}")
                log(("  " + txt.strip().splitlines()[-1][:300]) if txt.strip() else "")
                log(f"VIOLATION property=C11 replay={pth}")
        miri_aisle["failures"] = miri_viol
        log(f"[C11] Miri ({time.time() - t0:.0f}s): {okc} {shape} seed(s) clean, {miri_viol} failing")
    unlisted = report("C11", raws) + len(hung) + miri_viol
    wall = time.time() - t0
    coverage = {
        "evaluations": agg["executions"],
        "miri_aisle": miri_aisle,
        "distinct_nontrivial": n_nontrivial,
        "rule": "one evaluation = one aisle scenario (file text + two replica histories with sink fault plans) checked by P1/W1/W2/W3/H1/L1; "
                "three generators: seeded random (structured files, token soup, unit-test files), enumeration of every fault position of every write call "
                "(each hard kind, EINTR, every split point) for a set of files, and every string over the format's alphabet up to a length bound; "
                "non-trivial = at least one sink fault fired, or >= 2 history operations ran on a successfully parsed configuration; distinct = distinct scenario JSON hash",
        "samples": samples,
        "exhaustive": False,
        "exhaustive_parts": {
            "strings_over_ascii7_alphabet_up_to_len": plan["exh_len"],
            "strings_over_wide_alphabet_up_to_len": plan["wide_len"],
            "strings_enumerated": agg["exhaustive_strings"],
            "sink_fault_points_enumerated": agg["enumerated_fault_points"],
            "duplicate_positions_enumerated": agg["enumerated_dup_positions"],
            "duplicate_positions_note": "files of 3..129 (quick) / 3..1030 (thorough) names or categories in four layouts; for every position p the p-th one repeats a random earlier one and the parse must reject the file; plus, for every name length of 1..130 bytes (thorough: ..300 and the neighbours of 512 ... 65536), eight files with one duplicate or one near-duplicate (same head, different last or middle character; a name equal to a category name) of names of exactly that length, ASCII and two-byte fillers",
            "note": "the write-fault enumeration is exhaustive per file (every write call x {WouldBlock, Ok(0), StorageFull, EINTR} and every split point); the set of files is sampled",
        },
        "random_runs": agg["runs"] - agg["exhaustive_strings"] - agg["enumerated_dup_positions"] - collide_files,
        "birthday_sampling": {"files": collide_files, "names_between_the_two_occurrences": agg["collide_names"],
                              "note": "each file is `A`, 10^6 distinct names, `A` again and must be rejected; a duplicate table keyed by a b-bit fingerprint of the name forgets A with probability about names/2^b, so this reaches fingerprints of about log2(names) bits; these files are checked directly (not counted as evaluations)"},
        "parsed_ok": agg["parsed_ok"],
        "parse_errors": agg["parse_err"],
        "parse_error_kinds": err_kinds,
        "history_operations": agg["ops"],
        "lookups_checked": agg["lookups_checked"],
        "faults_fired": fired,
        "runs_per_hour": int(agg["executions"] / max(sim_wall, 0.001) * 3600),
        "simulated_time": "n/a - no clock; write calls and history operations are the steps",
        "real_vs_stub": "Real: cooklang::aisle (parse, write, AisleConf, ingredients_info, reverse), IngredientList::categorize, serde impls, built from /repo's working tree with the seeded hasher seam. Simulated: the byte sink (FaultyWriter), hash entropy, operation histories.",
    }
    write_evidence("C11", tier, seed, "fault_enumeration", coverage,
                   ["the 'for all text inputs' clauses are exhaustive only up to the stated string lengths over the stated alphabets and sampled beyond",
                    "the format model used by P1 compares category names modulo surrounding white space"],
                   wall, unlisted)
    log(f"[C11] {agg['executions']} scenarios ({agg['exhaustive_strings']} exhaustive strings, {agg['enumerated_fault_points']} enumerated fault points) in {wall:.1f}s; faults {fired}; violations: {unlisted}")
    return 1 if unlisted else 0


# --------------------------------------------------------------------------- main

def replay(path):
    """Re-run what a replay file describes, in fresh processes. Exit 1 + VIOLATION line if the
    recorded violation class is observed again, 0 if not."""
    if path.endswith(".txt"):
        # not-sync: the compiler output is the evidence; the replay is the probe build itself
        rc, out = cargo_build("sendsync_probe")
        if rc != 0 and ("cannot be shared between threads safely" in out or "cannot be sent between threads safely" in out):
            log(out[-1500:])
            log(f"VIOLATION property=C18 replay={path}")
            return 1
        log("NOT-REPRODUCED: the Send + Sync probe builds")
        return 0
    rf = json.load(open(path))
    prop, cls = rf.get("property", "C18"), rf.get("class", "")
    prov = rf.get("provenance") or {}
    if cls.startswith("miri"):
        note = next((n for n in rf.get("notes", []) if "MIRIFLAGS" in n), "")
        import re
        m = re.search(r"-Zmiri-seed=(\d+) -Zmiri-preemption-rate=([0-9.]+).*-- (\w+) (\d+)", note)
        if not m:
            die("miri replay file without a replay command")
        s_, rate, shape, _ = m.groups()
        d = os.path.join(HERE, "cookmiri")
        env = {**ENV, "CARGO_TARGET_DIR": os.path.join(TARGET, "miri"), "MIRIFLAGS": f"-Zmiri-seed={s_} -Zmiri-preemption-rate={rate}"}
        rc, out = run(["cargo", "+nightly", "miri", "run", "--offline", "-q", "--", shape, s_], cwd=d, env=env, timeout=3600)
        if rc == 0 and "COOKMIRI-OK" in out:
            log(f"NOT-REPRODUCED property={prop} class={cls}")
            return 0
        log(out[-2000:])
        log(f"VIOLATION property={prop} replay={path}")
        return 1
    if cls == "history-dependence" and prov.get("salt") == 3 and "scenario" not in rf:
        # cold-start pair: two fresh processes, forward and reverse reference order
        os.makedirs(TMP, exist_ok=True)
        tabs = []
        for order in ("fwd", "rev"):
            f = os.path.join(TMP, f"replay-refs-{os.getpid()}-{order}.txt")
            rc, out = run([BIN, "c18", "--seed", str(prov["verif_seed"]), "--salt", "3", "--start", str(prov["run_index"]), "--runs", "1", "--scheds", "1",
                           "--ref-order", order, "--dump-refs", f, "--out", f + ".json", "--replay-dir", TMP], timeout=600)
            tabs.append(sorted(l.rstrip("\n").split("\t", 2)[1:] for l in open(f)))
            for x in (f, f + ".json"):
                if os.path.exists(x):
                    os.remove(x)
        diff = [x for x in tabs[0] if x not in tabs[1]]
        if diff:
            log(f"REPRODUCED: forward and reverse reference tables differ on {len(diff)} key(s): {diff[:3]}")
            log(f"VIOLATION property={prop} replay={path}")
            return 1
        log(f"NOT-REPRODUCED property={prop} class={cls}")
        return 0
    if cls == "cross-process-divergence":
        i, W, seed = prov["run_index"], prov["workers"], prov["verif_seed"]
        raws = []
        st = selftest(seed, i + 1, raws, layouts=[1, W], quiet=True, only_run=i)
        if st["divergences"] or raws:
            log(f"REPRODUCED: run {i} differs between a 1-process and a {W}-process layout")
            log(f"VIOLATION property={prop} replay={path}")
            return 1
        log(f"NOT-REPRODUCED property={prop} class={cls}")
        return 0
    if "approx_orders" in rf:
        o1, o2 = rf["approx_orders"]
        seed_, step_ = str(prov.get("verif_seed", 1)), str(rf.get("approx_step", 1))
        res = []
        for o in (o1, o2):
            pr = subprocess.run([BIN, "approx", "--order", o, "--seed", seed_, "--step", step_], env=sim_env(), stdout=subprocess.PIPE, stderr=subprocess.STDOUT, text=True, timeout=1800)
            res.append(sorted(pr.stdout.splitlines()))
        if res[0] != res[1]:
            log(f"REPRODUCED: new_approx answers differ between call orders {o1} and {o2}")
            log(f"VIOLATION property={prop} replay={path}")
            return 1
        log(f"NOT-REPRODUCED property={prop} class={cls}")
        return 0
    if cls == "cpu-dependence":
        idx, seed = str(prov.get("run_index", 0)), str(prov.get("verif_seed", 1))
        cp = rf.get("cpus", {})
        pins = [(), ("taskset", "-c", str(cp.get("one", 0))), ("taskset", "-c", ",".join(str(x) for x in cp.get("two", [0, 1])))]
        res = []
        for pin in pins:
            pr = subprocess.run([*pin, BIN, "bigfp", "--seed", seed, "--n", str(int(idx) + 1), "--only", idx], env=sim_env(), stdout=subprocess.PIPE, stderr=subprocess.STDOUT, text=True, timeout=1800)
            res.append(pr.stdout)
        if res[0] != res[1] or res[0] != res[2]:
            log(f"REPRODUCED: big input {idx} fingerprints differ between CPU affinities")
            log(f"VIOLATION property={prop} replay={path}")
            return 1
        log(f"NOT-REPRODUCED property={prop} class={cls}")
        return 0
    if cls == "hang":
        rc, out = run([BIN, "replay", path], timeout=300)
        rc2, out2 = run([BIN, "realthreads", "--seed", str(prov.get("verif_seed", 1)), "--salt", str(prov.get("salt", 1)), "--run-index", str(prov.get("run_index", 0))], timeout=120)
        if rc == 124 and rc2 != 0:
            log(f"REPRODUCED: the run hangs under the simulator and {'hangs' if rc2 == 124 else 'mismatches'} on real threads")
            log(f"VIOLATION property={prop} replay={path}")
            return 1
        log(f"NOT-REPRODUCED property={prop} class={cls} (simulator rc={rc}, real threads rc={rc2})")
        return 0
    use_bin = BIN
    if rf.get("engine") == "shadow":
        info, err = build_shadow()
        if err:
            log(f"NOT-REPRODUCED property={prop} class={cls}: the shadow build is not available for this tree ({err})")
            return 0
        use_bin = SHADOW_BIN
    rc, out = run([use_bin, "replay", path], timeout=1800)
    log(out.rstrip())
    return rc


def setup():
    t0 = time.time()
    os.makedirs(TMP, exist_ok=True)
    os.makedirs(REPLAYS, exist_ok=True)
    b = build_cooksim()
    if isinstance(b, tuple):
        log("setup: cooksim cannot be built because the library's types are not Send + Sync; the C18 check will report it")
    rc, out = cargo_build("sendsync_probe")
    if rc != 0:
        log("setup: sendsync_probe does not build (reported by the C18 check)")
    if os.environ.get("VERIF_SKIP_MIRI") != "1":
        ok, fails = miri_run("light", [0], 1800)
        log(f"setup: Miri smoke run ok={ok} fails={len(fails)}")
    log(f"setup done in {time.time() - t0:.1f}s")
    return 0


def main():
    if len(sys.argv) < 2:
        die(__doc__)
    cmd = sys.argv[1]
    # the registered command names its tier explicitly; VERIF_TIER only applies without --tier
    tier = os.environ.get("VERIF_TIER") or "quick"
    if "--tier" in sys.argv:
        tier = sys.argv[sys.argv.index("--tier") + 1]
    if tier not in ("quick", "thorough"):
        die(f"unknown tier {tier}")
    try:
        seed = int(os.environ.get("VERIF_SEED", "1"))
    except ValueError:
        die("VERIF_SEED must be an integer")
    os.makedirs(TMP, exist_ok=True)
    if cmd == "setup":
        sys.exit(setup())
    if cmd == "C18":
        sys.exit(check_c18(tier, seed))
    if cmd == "C11":
        sys.exit(check_c11(tier, seed))
    if cmd == "replay":
        b = build_cooksim()
        if isinstance(b, tuple):
            log(f"VIOLATION property=C18 replay={b[1]}")
            sys.exit(1)
        sys.exit(replay(sys.argv[2]))
    die(f"unknown command {cmd}")


if __name__ == "__main__":
    main()
