//! cookmiri — real `std::thread`s sharing one parser, run under Miri
//! (`cargo +nightly miri run -- <light|full> <seed>`), guard OFF: nothing is
//! stubbed. Miri's scheduler, weak-memory emulation and the entropy behind
//! `RandomState` are functions of `-Zmiri-seed`, so one seed is one execution.
//!
//! Threads start behind a barrier so that the *first* use of the process-wide
//! fraction table happens concurrently. After the joins the main thread repeats
//! every operation sequentially and compares (oracle O1). Any data race, UB,
//! deadlock or mismatch fails the run.

use std::sync::{Arc, Barrier};

use cooklang::convert::System;
use cooklang::quantity::Number;
use cooklang::{Converter, CooklangParser, Extensions};

const INPUTS: &[&str] = &[
    ">> time: 1 h\n>> prep time: 10 min\n>> cook time: 50 min\nMix @flour{200%g}.\n",
    ">> [mode]: components\n@flour{1%kg}\n>> [mode]: steps\nMix @flour{200%g} and @water.\n",
    ">> [duplicate]: ref\nAdd @water{1%l} then @water{2%l}.\n\nAdd @&(~1)mix{} ~{5%min}.\n",
    "Heat #oven to 180 °C. Add @sugar{1/3%cup} and @salt{1.26%tsp}.\n",
    "@a{1%g} @&a{1%ml} @b{} @{} ~x\n",
    ">> servings: 2|4\n@eggs{2|4} @milk{0.333%l}\n",
    // diagnostics that quote pieces of the input (unknown timer unit, a timer unit that is not time,
    // an unknown config key)
    "Cook ~{10%Minuten} then ~{5%kg}.\n>> [bogus]: x\n",
];

fn mix(a: u64, b: u64) -> u64 {
    let mut z = a ^ b.wrapping_mul(0x9E37_79B9_7F4A_7C15);
    z = (z ^ (z >> 30)).wrapping_mul(0xBF58_476D_1CE4_E5B9);
    z = (z ^ (z >> 27)).wrapping_mul(0x94D0_49BB_1331_11EB);
    z ^ (z >> 31)
}

#[derive(Clone, Copy, Debug, PartialEq)]
enum Op {
    Parse(usize, usize),
    Meta(usize, usize),
    ScaleConvert(usize, usize),
    Approx(usize),
    /// `Converter::find_unit` — the one `&self` entry point every parse with units goes through
    FindUnit(usize),
    /// convert a quantity to the other system and fit it
    ConvertQ(usize),
    /// a small parse whose analysis looks up several units (timers, references)
    UnitParse(usize),
    /// `ScaledQuantity::try_fraction`: the shortest public path to the per-unit fractions configuration
    TryFraction(usize),
    /// parse and render the report (plain or coloured) into a buffer: what an application does with
    /// diagnostics, possibly while other threads are parsing
    Render(usize, usize, bool),
}

const UNITS: &[&str] = &["g", "min", "ml", "kg", "tsp", "h", "cup", "lb", "nope", "°C", "s", "l"];
const QUANTS: &[(f64, &str)] = &[
    (250.0, "g"), (1.5, "l"), (2.0, "cup"), (12.0, "oz"), (90.0, "min"), (3.0, "tsp"),
    // units whose internal ids collide in small direct-mapped tables, and values that the
    // fractions configuration of their unit decides how to print
    (3.5, "tsp"), (250.0, "ml"), (2.5, "g"), (1.5, "fl oz"), (1.5, "cup"), (0.75, "lb"), (500.0, "mg"),
    (1.5, "kg"), (1.5, "h"), (1.5, "tbsp"), (2.0, "day"), (0.333, "cup"),
];
const UNIT_INPUTS: &[&str] = &[
    ">> time: 1 hour 30 min\n>> prep time: 20 minutes\nBoil @water{1%l} for ~{10%min}.\n",
    ">> cook time: 2 hours\n>> servings: 2\nBake ~{1%h}. Heat to 180 °C.\n",
    "Boil @water{1%l} for ~{10%min} then add @&water{200%ml}.\n",
    "Mix @flour{200%g} and @&flour{1%kg}, rest ~{1%h}, bake ~{30%min}.\n",
    "@butter{2%tbsp} @&butter{1%tsp} ~{45%s} @sugar{1%cup} @&sugar{100%g}\n",
];

const APPROX: &[(f64, f32, u8, u32)] = &[(0.333, 0.05, 4, 5), (1.26, 0.1, 8, 5), (2.74, 0.05, 16, 100), (0.5, 0.0, 2, 0)];

fn run(parsers: &[CooklangParser], op: Op) -> String {
    match op {
        Op::Parse(p, i) => format!("{:?}", parsers[p].parse(INPUTS[i])),
        Op::Meta(p, i) => format!("{:?}", parsers[p].parse_metadata(INPUTS[i])),
        Op::Render(p, i, color) => {
            let r = parsers[p].parse(INPUTS[i]);
            let mut buf = Vec::new();
            let res = r.report().write("m.cook", INPUTS[i], color, &mut buf);
            format!("{:?} {:?} {}", r.report(), res.map_err(|e| e.kind()), String::from_utf8_lossy(&buf))
        }
        Op::ScaleConvert(p, i) => {
            let r = parsers[p].parse(INPUTS[i]);
            match r.into_output() {
                Some(rec) => {
                    let mut s = rec.scale(1.5, parsers[p].converter());
                    let errs = s.convert(System::Imperial, parsers[p].converter());
                    let mut out = format!("{s:?} {errs:?}");
                    for q in s.ingredients.iter().filter_map(|i| i.quantity.as_ref()) {
                        let mut q = q.clone();
                        let ok = q.try_fraction(parsers[p].converter());
                        out.push_str(&format!(" {ok} {q:?}"));
                    }
                    out
                }
                None => "none".into(),
            }
        }
        Op::FindUnit(k) => {
            let u = parsers[0].converter().find_unit(UNITS[k]);
            format!("{:?}", u.map(|u| (u.symbol().to_string(), u.physical_quantity)))
        }
        Op::ConvertQ(k) => {
            let (v, u) = QUANTS[k];
            let mut q = cooklang::ScaledQuantity::new(cooklang::Value::Number(v.into()), Some(u.to_string()));
            let r = q.convert(if k % 2 == 0 { System::Imperial } else { System::Metric }, parsers[0].converter());
            let fit = q.fit(parsers[0].converter());
            format!("{r:?} {fit:?} {q:?}")
        }
        Op::UnitParse(i) => format!("{:?}", parsers[0].parse(UNIT_INPUTS[i])),
        Op::TryFraction(k) => {
            let (v, u) = QUANTS[k];
            let mut q = cooklang::ScaledQuantity::new(cooklang::Value::Number(v.into()), Some(u.to_string()));
            let ok = q.try_fraction(parsers[0].converter());
            format!("{ok} {q:?}")
        }
        Op::Approx(k) => {
            let (v, a, d, w) = APPROX[k];
            format!("{:?}", Number::new_approx(v, a, d, w))
        }
    }
}

fn main() {
    let args: Vec<String> = std::env::args().collect();
    let shape = args.get(1).map(|s| s.as_str()).unwrap_or("light");
    if shape == "build-only" {
        println!("COOKMIRI-OK build");
        return;
    }
    let seed: u64 = args.get(2).and_then(|s| s.parse().ok()).unwrap_or(0);
    if shape == "aisle" || shape == "aislelight" {
        aisle_shape(seed, shape == "aislelight");
        return;
    }
    let full = shape == "full";
    let fit = shape == "fit";
    let conv = shape == "conv" || fit;
    let parsers: Arc<Vec<CooklangParser>> = Arc::new(if full || conv {
        vec![CooklangParser::extended(), CooklangParser::new(Extensions::COMPAT, Converter::empty())]
    } else {
        vec![CooklangParser::new(Extensions::all(), Converter::empty()), CooklangParser::canonical()]
    });
    let nthreads = if fit { 4 } else if conv { 3 } else { 2 + (mix(seed, 1) % 2) as usize };
    let barrier = Arc::new(Barrier::new(nthreads));
    let mut plans: Vec<Vec<Op>> = Vec::new();
    for t in 0..nthreads {
        let mut ops = Vec::new();
        // the first operation of every thread reaches the lazily built fraction table
        ops.push(Op::Approx((mix(seed, 100 + t as u64) % APPROX.len() as u64) as usize));
        if fit {
            // four threads converting and fitting quantities on a cold converter from the very
            // first operation: whatever the converter caches per unit on first use is contended
            ops.clear();
            for k in 0..14 {
                let r = mix(seed, 5000 + (t * 128 + k) as u64);
                let q = ((r >> 8) % QUANTS.len() as u64) as usize;
                ops.push(if r % 8 == 0 { Op::ConvertQ(q) } else { Op::TryFraction(q) });
            }
            plans.push(ops);
            continue;
        }
        if conv {
            // many short operations on the shared converter: contention on whatever it
            // shares behind `&self`
            // the first real operation of every thread is a parse that exercises whatever the
            // converter builds lazily on first use (time units, unit lookups), on a cold converter
            ops.push(Op::UnitParse((mix(seed, 2900 + t as u64) % 3) as usize));
            for k in 0..12 {
                let r = mix(seed, 3000 + (t * 32 + k) as u64);
                ops.push(match r % 8 {
                    0..=4 => Op::FindUnit(((r >> 8) % UNITS.len() as u64) as usize),
                    5 => Op::ConvertQ(((r >> 8) % QUANTS.len() as u64) as usize),
                    6 => Op::UnitParse(((r >> 8) % UNIT_INPUTS.len() as u64) as usize),
                    _ => Op::Approx(((r >> 8) % APPROX.len() as u64) as usize),
                });
            }
            plans.push(ops);
            continue;
        }
        let n = 2 + (mix(seed, 200 + t as u64) % 2) as usize;
        for k in 0..n {
            let r = mix(seed, 1000 + (t * 16 + k) as u64);
            let p = (r % 2) as usize;
            let i = ((r >> 8) % INPUTS.len() as u64) as usize;
            ops.push(match (r >> 16) % if full { 6 } else { 5 } {
                0 | 1 => Op::Parse(p, i),
                2 => Op::Meta(p, i),
                // rendering next to parsing: a renderer's process-wide switches (colour) must not be
                // visible to a parse on another thread. One thread renders plain, the next coloured.
                3 | 4 => if t % 2 == 0 { Op::Render(p, (r >> 24) as usize % INPUTS.len(), t % 4 == 0) } else { Op::Parse(p, INPUTS.len() - 1) },
                _ => Op::ScaleConvert(0, i),
            });
        }
        plans.push(ops);
    }
    let mut handles = Vec::new();
    for ops in plans.clone() {
        let parsers = parsers.clone();
        let barrier = barrier.clone();
        handles.push(std::thread::spawn(move || {
            barrier.wait();
            ops.iter().map(|&op| (op, run(&parsers, op))).collect::<Vec<_>>()
        }));
    }
    let mut all = Vec::new();
    for h in handles {
        all.extend(h.join().expect("worker thread panicked"));
    }
    let mut bad = 0;
    // (1) the shared parsers, used again sequentially, give what the threads got
    for (op, got) in &all {
        let again = run(&parsers, *op);
        if &again != got {
            bad += 1;
            println!("COOKMIRI-MISMATCH {op:?}\n concurrent: {got}\n sequential: {again}");
        }
    }
    // (2) ... and so do parsers of the same configuration built separately and never shared:
    // state corrupted for good by a race answers consistently wrong on the shared parsers
    let reference: Vec<CooklangParser> = if full || conv {
        vec![CooklangParser::extended(), CooklangParser::new(Extensions::COMPAT, Converter::empty())]
    } else {
        vec![CooklangParser::new(Extensions::all(), Converter::empty()), CooklangParser::canonical()]
    };
    let mut seen: Vec<Op> = Vec::new();
    for (op, got) in &all {
        if seen.contains(op) {
            continue;
        }
        seen.push(*op);
        let fresh = run(&reference, *op);
        if &fresh != got {
            bad += 1;
            println!("COOKMIRI-MISMATCH {op:?}\n concurrent (shared parser): {got}\n never-shared parser:         {fresh}");
        }
    }
    // two threads that ran the same operation must agree with each other, too
    for (i, (a, ra)) in all.iter().enumerate() {
        for (b, rb) in &all[i + 1..] {
            if a == b && ra != rb {
                bad += 1;
                println!("COOKMIRI-MISMATCH between threads {a:?}");
            }
        }
    }
    if bad > 0 {
        std::process::exit(1);
    }
    println!("COOKMIRI-OK shape={shape} seed={seed} threads={nthreads} ops={}", all.len());
}


// ---------------------------------------------------------------------------
// C11: `aisle::parse` computes error spans by pointer arithmetic in an `unsafe` block
// (`offset_from` between a sub-slice and the input). Under Miri every such computation is checked
// for provenance and bounds, which the bounds check of a span *value* cannot do: an offset taken
// between two different allocations, or through a pointer one past a reallocated buffer, is
// undefined behaviour even when the number happens to look right.

const AISLE_FILES: &[&str] = &[
    "[produce]\npotatoes\n\n[dairy]\nmilk\nbutter\n",
    "[c]\na|b|c\nd| e |\n// comment\n[d] // trailing\nlast\n",
    "[dup]\na\n[dup]\n",
    "[c]\na|b\nc|a\n",
    "a\n[c]\n",
    "[a|b]\nx\n",
    "[c]\r\n\u{e9}|\u{20ac}|\u{1f345}\r\n|\r\n",
    "[]\n|",
    "[c]\n\u{a0}[a]\u{a0}\n\t x \t| y\n",
    "|",
    "",
    "[c]\nname // c\nname\n",
];

fn aisle_one(text: &str) -> u32 {
    use cooklang::aisle;
    use cooklang::error::RichError;
    match aisle::parse(text) {
        Ok(conf) => {
            let info = conf.ingredients_info();
            for c in &conf.categories {
                for i in &c.ingredients {
                    for n in &i.names {
                        let got = info.get(n).unwrap_or_else(|| panic!("COOKMIRI-MISMATCH aisle lookup misses {n:?} in {text:?}"));
                        assert!(got.category == c.name && got.common_name == i.names[0], "COOKMIRI-MISMATCH aisle lookup of {n:?} in {text:?}");
                    }
                }
            }
            let mut out = Vec::new();
            aisle::write(&conf, &mut out).expect("write to a Vec");
            let written = String::from_utf8(out).expect("utf-8");
            let again = aisle::parse(&written).unwrap_or_else(|e| panic!("COOKMIRI-MISMATCH written output of {text:?} does not parse: {e:?}"));
            assert!(again == conf, "COOKMIRI-MISMATCH aisle round trip of {text:?}");
            let _ = conf.clone();
            1
        }
        Err(e) => {
            for (span, _) in e.labels().iter() {
                assert!(span.start() <= span.end() && span.end() <= text.len() && text.is_char_boundary(span.start()) && text.is_char_boundary(span.end()),
                    "COOKMIRI-MISMATCH aisle error span {span:?} outside {text:?}");
            }
            let mut out = Vec::new();
            let _ = cooklang::error::write_rich_error(&e, "aisle.conf", text, false, &mut out);
            0
        }
    }
}

fn aisle_shape(seed: u64, light: bool) {
    let mut n = 0u32;
    let mut ok = 0u32;
    for f in AISLE_FILES {
        ok += aisle_one(f);
        n += 1;
        // the same text as a sub-slice of a larger buffer (the input pointer is not the start of its allocation)
        let holder = format!("##{f}##");
        ok += aisle_one(&holder[2..holder.len() - 2]);
        n += 1;
    }
    // every string of up to 3 symbols ...
    const ALPHA: &[&str] = &["[", "]", "|", "/", "\n", " ", "a"];
    for len in 0..=(if light { 2u32 } else { 3 }) {
        for code in 0..(ALPHA.len() as u64).pow(len) {
            let mut s = String::new();
            let mut c = code;
            for _ in 0..len {
                s.push_str(ALPHA[(c % ALPHA.len() as u64) as usize]);
                c /= ALPHA.len() as u64;
            }
            ok += aisle_one(&s);
            n += 1;
        }
    }
    // ... and seeded longer ones over a wider alphabet
    const WIDE: &[&str] = &["[", "]", "|", "//", "\n", " ", "a", "b", "\u{a0}", "\r\n", "A", "\u{e9}", "\t", "[c]\n", "x|y\n"];
    for k in 0..(if light { 30u64 } else { 120 }) {
        let mut s = String::new();
        let len = 3 + mix(seed, 7000 + k) % 10;
        for j in 0..len {
            s.push_str(WIDE[(mix(seed, 8000 + k * 16 + j) % WIDE.len() as u64) as usize]);
        }
        ok += aisle_one(&s);
        n += 1;
    }
    println!("COOKMIRI-OK shape={} seed={seed} files={n} accepted={ok}", if light { "aislelight" } else { "aisle" });
}
