/* simclock: the clock seam of the simulator.
 *
 * cooklang-rs has no clock of its own, so there is no trait or injected clock to own. The only
 * seam every possible clock read of the library (std::time::Instant / SystemTime, a dependency's
 * time call) has to pass is libc: this shim is LD_PRELOADed into the simulator's worker
 * processes and interposes clock_gettime / gettimeofday / time / nanosleep / clock_nanosleep.
 *
 * mode 0 (default): pass through to libc, nothing changes.
 * mode 1 (set by cooksim through simclock_ctl): discrete simulated time. "Now" is a counter that
 *   advances by `step` nanoseconds per read and by the requested duration per sleep (which
 *   returns at once); the wall clock is that counter plus an offset, so the simulator decides
 *   the date, the speed of time and every jump. One seed, one sequence of clock values.
 *
 * Every read and sleep in mode 1 is counted: on a tree that does not touch the clock the counters
 * stay at zero, which is reported as evidence rather than assumed.
 */
#define _GNU_SOURCE
#include <dlfcn.h>
#include <stdatomic.h>
#include <stdint.h>
#include <stddef.h>
#include <sys/time.h>
#include <time.h>

static _Atomic int g_mode = 0;
static _Atomic int64_t g_mono_ns = 0;      /* simulated monotonic "now" */
static _Atomic int64_t g_real_off_ns = 0;  /* wall clock = monotonic + offset */
static _Atomic int64_t g_step_ns = 0;
static _Atomic uint64_t g_reads = 0;
static _Atomic uint64_t g_sleeps = 0;

typedef int (*cgt_fn)(clockid_t, struct timespec *);
typedef int (*gtod_fn)(struct timeval *, void *);
typedef time_t (*time_fn)(time_t *);
typedef int (*nanosleep_fn)(const struct timespec *, struct timespec *);
typedef int (*cns_fn)(clockid_t, int, const struct timespec *, struct timespec *);

static cgt_fn real_cgt;
static gtod_fn real_gtod;
static time_fn real_time;
static nanosleep_fn real_nanosleep;
static cns_fn real_cns;

static int64_t read_now(int wall) {
    int64_t step = atomic_load(&g_step_ns);
    int64_t t = atomic_fetch_add(&g_mono_ns, step) + step;
    atomic_fetch_add(&g_reads, 1);
    return wall ? t + atomic_load(&g_real_off_ns) : t;
}

static int is_wall(clockid_t c) {
    return c == CLOCK_REALTIME || c == CLOCK_REALTIME_COARSE || c == CLOCK_TAI || c == CLOCK_REALTIME_ALARM;
}

static int is_cpu(clockid_t c) {
    return c == CLOCK_PROCESS_CPUTIME_ID || c == CLOCK_THREAD_CPUTIME_ID || c < 0;
}

int clock_gettime(clockid_t c, struct timespec *ts) {
    if (!real_cgt) real_cgt = (cgt_fn)dlsym(RTLD_NEXT, "clock_gettime");
    if (!atomic_load(&g_mode) || is_cpu(c)) return real_cgt(c, ts);
    int64_t t = read_now(is_wall(c));
    if (t < 0) t = 0;
    ts->tv_sec = (time_t)(t / 1000000000LL);
    ts->tv_nsec = (long)(t % 1000000000LL);
    return 0;
}

int gettimeofday(struct timeval *tv, void *tz) {
    if (!real_gtod) real_gtod = (gtod_fn)dlsym(RTLD_NEXT, "gettimeofday");
    if (!atomic_load(&g_mode)) return real_gtod(tv, tz);
    int64_t t = read_now(1);
    if (t < 0) t = 0;
    tv->tv_sec = (time_t)(t / 1000000000LL);
    tv->tv_usec = (suseconds_t)((t % 1000000000LL) / 1000);
    return 0;
}

time_t time(time_t *out) {
    if (!real_time) real_time = (time_fn)dlsym(RTLD_NEXT, "time");
    if (!atomic_load(&g_mode)) return real_time(out);
    int64_t t = read_now(1);
    if (t < 0) t = 0;
    time_t s = (time_t)(t / 1000000000LL);
    if (out) *out = s;
    return s;
}

int nanosleep(const struct timespec *req, struct timespec *rem) {
    if (!real_nanosleep) real_nanosleep = (nanosleep_fn)dlsym(RTLD_NEXT, "nanosleep");
    if (!atomic_load(&g_mode) || !req) return real_nanosleep(req, rem);
    atomic_fetch_add(&g_sleeps, 1);
    atomic_fetch_add(&g_mono_ns, (int64_t)req->tv_sec * 1000000000LL + req->tv_nsec);
    if (rem) { rem->tv_sec = 0; rem->tv_nsec = 0; }
    return 0;
}

int clock_nanosleep(clockid_t c, int flags, const struct timespec *req, struct timespec *rem) {
    if (!real_cns) real_cns = (cns_fn)dlsym(RTLD_NEXT, "clock_nanosleep");
    if (!atomic_load(&g_mode) || !req || is_cpu(c)) return real_cns(c, flags, req, rem);
    atomic_fetch_add(&g_sleeps, 1);
    int64_t d = (int64_t)req->tv_sec * 1000000000LL + req->tv_nsec;
    if (flags & TIMER_ABSTIME) {
        int64_t now = atomic_load(&g_mono_ns) + (is_wall(c) ? atomic_load(&g_real_off_ns) : 0);
        d = d > now ? d - now : 0;
    }
    atomic_fetch_add(&g_mono_ns, d);
    if (rem) { rem->tv_sec = 0; rem->tv_nsec = 0; }
    return 0;
}

/* control surface, looked up by cooksim with dlsym(RTLD_DEFAULT, ..) */
void simclock_ctl(int mode, int64_t mono_ns, int64_t wall_ns, int64_t step_ns) {
    atomic_store(&g_mono_ns, mono_ns);
    atomic_store(&g_real_off_ns, wall_ns - mono_ns);
    atomic_store(&g_step_ns, step_ns);
    atomic_store(&g_mode, mode);
}
void simclock_mode(int mode) { atomic_store(&g_mode, mode); }
void simclock_advance(int64_t ns) { atomic_fetch_add(&g_mono_ns, ns); }
/* a jump of the wall clock (and a new speed of time); the monotonic clock keeps running */
void simclock_set_wall(int64_t wall_ns, int64_t step_ns) {
    atomic_store(&g_real_off_ns, wall_ns - atomic_load(&g_mono_ns));
    atomic_store(&g_step_ns, step_ns);
}
uint64_t simclock_reads(void) { return atomic_load(&g_reads); }
uint64_t simclock_sleeps(void) { return atomic_load(&g_sleeps); }
int64_t simclock_now_mono(void) { return atomic_load(&g_mono_ns); }
