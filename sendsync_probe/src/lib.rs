//! O5 (type level): the thread scenarios of C18 can only be written if the public
//! types a caller shares between threads are `Send + Sync`. If the library builds
//! and this crate does not, that is reported as a C18 violation (class `not-sync`).
fn _assert<T: Send + Sync>() {}

pub fn probe() {
    _assert::<cooklang::CooklangParser>();
    _assert::<cooklang::Converter>();
    _assert::<cooklang::ScalableRecipe>();
    _assert::<cooklang::ScaledRecipe>();
    _assert::<cooklang::error::SourceReport>();
    _assert::<cooklang::Metadata>();
    _assert::<cooklang::Extensions>();
}
