//! cooksim — deterministic simulation harness for cooklang-rs (properties C18, C11).
//!
//! Subcommands (all driven by /verif/check.py):
//!   c18 worker   --seed S --salt T --runs N --worker w --workers W --scheds K --out FILE [--dump-log FILE] [--replay-dir DIR]
//!   c11 worker   (same flags)
//!   replay FILE              exit 1 if the recorded violation class reproduces, 0 otherwise
//!   minimise FILE --out FILE
//! Exit codes: 0 clean, 1 violation(s) found (details in --out / stdout), 2 harness error.

mod c11;
mod c18;
mod clock;
mod dict;
mod gen;
mod minimise;
mod rng;
mod scenario;
mod sim;

use std::collections::BTreeMap;
use std::io::Write;

use serde::{Deserialize, Serialize};

use rng::mix3;
use scenario::{gen_scenario, Pool, Scenario};
use sim::{SchedSpec, Violation};

pub struct Args {
    pub pos: Vec<String>,
    pub kv: BTreeMap<String, String>,
}

impl Args {
    fn parse() -> Args {
        let mut pos = Vec::new();
        let mut kv = BTreeMap::new();
        let mut it = std::env::args().skip(1).peekable();
        while let Some(a) = it.next() {
            if let Some(k) = a.strip_prefix("--") {
                let v = match it.peek() {
                    Some(n) if !n.starts_with("--") => it.next().unwrap(),
                    _ => "true".to_string(),
                };
                kv.insert(k.to_string(), v);
            } else {
                pos.push(a);
            }
        }
        Args { pos, kv }
    }
    pub fn u64(&self, k: &str, d: u64) -> u64 {
        self.kv.get(k).map(|v| v.parse().unwrap_or_else(|_| die(&format!("bad --{k}")))).unwrap_or(d)
    }
    pub fn str(&self, k: &str, d: &str) -> String {
        self.kv.get(k).cloned().unwrap_or_else(|| d.to_string())
    }
    pub fn flag(&self, k: &str) -> bool {
        self.kv.contains_key(k)
    }
}

/// the repository under test: `--repo`, else $VERIF_REPO, else /repo (an isolated regression run
/// works on copies of /repo and /verif)
pub fn default_repo() -> String {
    std::env::var("VERIF_REPO").unwrap_or_else(|_| "/repo".to_string())
}

pub fn die(msg: &str) -> ! {
    eprintln!("cooksim: harness error: {msg}");
    std::process::exit(2);
}

#[derive(Clone, Serialize, Deserialize)]
pub struct Provenance {
    pub verif_seed: u64,
    pub salt: u64,
    pub run_index: u64,
    pub run_seed: u64,
    pub worker: u64,
    pub workers: u64,
    pub sched_index: usize,
    /// schedules per scenario the worker was running with (prefix replays must match it)
    #[serde(default)]
    pub scheds: Option<usize>,
}

#[derive(Clone, Serialize, Deserialize)]
pub struct ReplayFile {
    pub property: String,
    pub class: String,
    pub provenance: Option<Provenance>,
    /// run indexes this worker process had executed before (only needed when the
    /// violation does not reproduce alone: state leaked from an earlier run)
    #[serde(default)]
    pub prefix_run_indexes: Vec<u64>,
    #[serde(default, skip_serializing_if = "Option::is_none")]
    pub scenario: Option<Scenario>,
    #[serde(default, skip_serializing_if = "Option::is_none")]
    pub sched: Option<SchedSpec>,
    #[serde(default, skip_serializing_if = "Option::is_none")]
    pub aisle: Option<c11::AisleScenario>,
    /// a storm of distinct unknown words on one parser (class `history-dependence`): seed and the
    /// number of words after which a probe recipe changed
    #[serde(default, skip_serializing_if = "Option::is_none")]
    pub storm: Option<StormCase>,
    /// a chain of nested parses (class `depth-dependence`)
    #[serde(default, skip_serializing_if = "Option::is_none")]
    pub depth: Option<c18::DepthCase>,
    pub violations: Vec<Violation>,
    #[serde(default)]
    pub minimised: bool,
    #[serde(default)]
    pub notes: Vec<String>,
}

pub fn write_replay(dir: &str, name: &str, rf: &ReplayFile) -> String {
    let _ = std::fs::create_dir_all(dir);
    let path = format!("{dir}/{name}.json");
    let mut f = std::fs::File::create(&path).unwrap_or_else(|e| die(&format!("cannot write {path}: {e}")));
    f.write_all(serde_json::to_string_pretty(rf).unwrap().as_bytes()).unwrap();
    path
}

#[derive(Default, Serialize)]
struct WorkerOut {
    property: String,
    runs: u64,
    executions: u64,
    steps: u64,
    switches: u64,
    ops: u64,
    ref_keys: u64,
    overlap_execs: u64,
    nested: u64,
    fresh_build_runs: u64,
    seam_counts: [u64; 5],
    fired: BTreeMap<String, u64>,
    sched_kinds: BTreeMap<String, u64>,
    threads_hist: BTreeMap<String, u64>,
    nontrivial_hashes: Vec<u64>,
    schedule_hashes: Vec<u64>,
    scenario_hashes: Vec<u64>,
    hash_seeds: u64,
    maps_created: u64,
    /// shadow build: runs discarded because a panic unwound inside the simulation
    tainted_runs: u64,
    /// clock seam: is the shim loaded; clock reads / sleeps the library made under simulated time
    clock_seam: bool,
    clock_reads: u64,
    clock_sleeps: u64,
    sim_time_ns: u64,
    /// reference phases that included the pass on another OS thread
    thread_passes: u64,
    violations: Vec<serde_json::Value>,
    samples: Vec<serde_json::Value>,
    wall_s: f64,
}

/// Hash lists are written as raw little-endian u64 files next to the worker's JSON
/// output (`<out>.<name>.u64`); `cooksim distinct` merges them.
pub fn write_hashes(out_path: &str, name: &str, v: &[u64]) {
    if out_path.is_empty() {
        return;
    }
    let mut bytes = Vec::with_capacity(v.len() * 8);
    for h in v {
        bytes.extend_from_slice(&h.to_le_bytes());
    }
    let p = format!("{out_path}.{name}.u64");
    std::fs::write(&p, bytes).unwrap_or_else(|e| die(&format!("{p}: {e}")));
}

fn distinct(a: &Args) -> i32 {
    let mut all: Vec<u64> = Vec::new();
    for f in &a.pos[1..] {
        let b = std::fs::read(f).unwrap_or_else(|e| die(&format!("{f}: {e}")));
        all.extend(b.chunks_exact(8).map(|c| u64::from_le_bytes(c.try_into().unwrap())));
    }
    let total = all.len();
    all.sort_unstable();
    all.dedup();
    println!("{{\"total\": {total}, \"distinct\": {}}}", all.len());
    0
}

fn init_process() {
    // shuttle installs its panic hook when the first Runner is created; create one,
    // then replace the hook by a silent one that only remembers the message.
    {
        let mut cfg = shuttle::Config::new();
        cfg.failure_persistence = shuttle::FailurePersistence::None;
        cfg.silence_warnings = true;
        let r = shuttle::Runner::new(sim::SimScheduler::new(SchedSpec::Random { seed: 0, stay: 0 }), cfg);
        r.run(|| {});
    }
    sim::install_silent_panic_hook();
    sim::install_subscriber();
    c18::calibrate_clock_overhead();
}

fn c18_worker(a: &Args) -> i32 {
    let t0 = std::time::Instant::now();
    let seed = a.u64("seed", 1);
    let salt = a.u64("salt", 1);
    let runs = a.u64("runs", 1000);
    let worker = a.u64("worker", 0);
    let workers = a.u64("workers", 1).max(1);
    let nsched = a.u64("scheds", 4) as usize;
    let out_path = a.str("out", "");
    let dump = a.kv.get("dump-log").cloned();
    let replay_dir = a.str("replay-dir", "/verif/replays");
    let max_viol = a.u64("max-violations", 3);
    let start = a.u64("start", 0);
    let pool_arc = std::sync::Arc::new({
        let mut p = Pool::load(&a.str("repo", &default_repo()));
        p.xl_den = a.u64("xl-den", 1500) as u32;
        p.max_threads = a.u64("max-threads", 4) as usize;
        p
    });
    let rev = a.str("ref-order", "fwd") == "rev";
    let progress = a.kv.get("progress").cloned();
    let mut refsf = a.kv.get("dump-refs").map(|p| std::io::BufWriter::new(std::fs::File::create(p).unwrap_or_else(|e| die(&format!("{p}: {e}")))));
    let mut out = WorkerOut { property: "C18".into(), clock_seam: clock::available(), ..Default::default() };
    let mut dumpf = dump.map(|p| std::io::BufWriter::new(std::fs::File::create(&p).unwrap_or_else(|e| die(&format!("{p}: {e}")))));
    let mut done_indexes: Vec<u64> = Vec::new();
    // shadow build: a run during which a panic unwound inside the simulation is discarded and the
    // worker continues in a fresh process (see sim::PANIC_SEEN); `--resume-at` / `--part` are set
    // by that re-exec, partial results go to `<out>.part<k>`
    let part = a.u64("part", 0);
    let mut i = a.u64("resume-at", start + worker);
    let mut tainted_at: Option<u64> = None;
    let maps0 = cooklang::verif_seam::created();
    'outer: while i < start + runs {
        sim::PANIC_SEEN.store(false, std::sync::atomic::Ordering::SeqCst);
        let tainted = || cfg!(feature = "shadow") && sim::panic_seen();
        let rs = mix3(seed, salt, i);
        if let Some(f) = dumpf.as_mut() {
            writeln!(f, "RUN {i} {rs:016x}").unwrap();
        }
        if let Some(p) = &progress {
            let _ = std::fs::write(p, format!("{i}"));
        }
        // (placing faults counts events with the pull parser: inside an execution for shadow builds)
        let sc = {
            let pool2 = pool_arc.clone();
            c18::in_shuttle(move || gen_scenario(rs, &pool2))
        };
        if tainted() {
            tainted_at = Some(i);
            break 'outer;
        }
        let rp = c18::reference_phase_ordered(&sc, rev);
        if tainted() {
            tainted_at = Some(i);
            break 'outer;
        }
        if let Some(f) = refsf.as_mut() {
            for (k, v) in &rp.env.refs {
                writeln!(f, "{i}\t{:016x}\t{k}", rng::fnv(v.as_bytes())).unwrap();
            }
        }
        out.runs += 1;
        out.ref_keys += rp.ref_keys as u64;
        out.scenario_hashes.push(sc.hash());
        out.hash_seeds += 1;
        if sc.fresh_build {
            out.fresh_build_runs += 1;
        }
        *out.threads_hist.entry(sc.threads.len().to_string()).or_insert(0) += 1;
        if out.samples.len() < 2 {
            out.samples.push(serde_json::json!({"run_index": i, "run_seed": rs, "scenario": &sc}));
        }
        let prov = |si: usize| Provenance { verif_seed: seed, salt, run_index: i, run_seed: rs, worker, workers, sched_index: si, scheds: Some(nsched) };
        if !rp.violations.is_empty() {
            let rf = ReplayFile {
                property: "C18".into(),
                class: rp.violations[0].class.clone(),
                provenance: Some(prov(0)),
                prefix_run_indexes: done_indexes.clone(),
                scenario: Some(sc.clone()),
                sched: None,
                aisle: None,
                depth: None,
                storm: None,
                violations: rp.violations.clone(),
                minimised: false,
                notes: vec![],
            };
            let p = write_replay(&replay_dir, &format!("C18-{rs:016x}-ref"), &rf);
            out.violations.push(serde_json::json!({"class": rf.class, "replay": p, "detail": rp.violations[0].detail}));
            if out.violations.len() as u64 >= max_viol {
                break 'outer;
            }
        }
        let mut est = 64u32;
        let mut scheds = c18::schedules_for(rs, nsched, est);
        let mut si = 0;
        while si < scheds.len() {
            let sched = scheds[si].clone();
            let (viol, st) = c18::execute(&rp, &sched, dumpf.is_some());
            if tainted() {
                tainted_at = Some(i);
                break 'outer;
            }
            if let Some(f) = dumpf.as_mut() {
                writeln!(f, "EXEC {si}").unwrap();
                for l in c18::take_log() {
                    writeln!(f, "{l}").unwrap();
                }
            }
            if si == 0 {
                est = (st.choices.len() as u32).max(8);
                scheds = c18::schedules_for(rs, nsched, est);
            }
            out.executions += 1;
            out.clock_reads += st.clock_reads;
            out.clock_sleeps += st.clock_sleeps;
            out.sim_time_ns += st.sim_time_ns;
            out.steps += st.steps;
            out.switches += st.switches;
            out.ops += st.ops;
            out.nested += st.nested;
            for k in 0..5 {
                out.seam_counts[k] += st.seam_counts[k];
            }
            let mut any_fault = false;
            for (k, v) in &st.fired {
                *out.fired.entry(k.clone()).or_insert(0) += v;
                any_fault = true;
            }
            if st.overlap {
                out.overlap_execs += 1;
                *out.fired.entry("preempt_overlap".into()).or_insert(0) += 1;
            }
            let kind = match &sched {
                SchedSpec::Random { stay: 0, .. } => "random",
                SchedSpec::Random { .. } => "random_sticky",
                SchedSpec::Pct { .. } => "pct",
                SchedSpec::List { .. } => "list",
            };
            *out.sched_kinds.entry(kind.into()).or_insert(0) += 1;
            let exec_hash = rng::roll(sc.hash(), st.sched_hash);
            out.schedule_hashes.push(st.sched_hash);
            if st.overlap || any_fault {
                out.nontrivial_hashes.push(exec_hash);
            }
            if !viol.is_empty() {
                let rf = ReplayFile {
                    property: "C18".into(),
                    class: viol[0].class.clone(),
                    provenance: Some(prov(si)),
                    prefix_run_indexes: done_indexes.clone(),
                    scenario: Some(sc.clone()),
                    // the recorded choices replay this execution without the generating scheduler
                    sched: Some(SchedSpec::List { choices: st.choices.clone() }),
                    aisle: None,
                depth: None,
                storm: None,
                    violations: viol.clone(),
                    minimised: false,
                    notes: vec![format!("found under {sched:?}")],
                };
                let p = write_replay(&replay_dir, &format!("C18-{rs:016x}-{si}"), &rf);
                out.violations.push(serde_json::json!({"class": rf.class, "replay": p, "detail": viol[0].detail, "key": viol[0].key, "phase": viol[0].phase}));
                if out.violations.len() as u64 >= max_viol {
                    break 'outer;
                }
                break; // next scenario
            }
            si += 1;
        }
        done_indexes.push(i);
        i += workers;
    }
    out.maps_created = cooklang::verif_seam::created() - maps0;
    out.thread_passes = c18::THREAD_PASSES.load(std::sync::atomic::Ordering::Relaxed);
    out.wall_s = t0.elapsed().as_secs_f64();
    // continue in a fresh process after a tainted run (only if something is left to do)
    let out_path = match tainted_at {
        Some(t) => {
            out.tainted_runs += 1;
            if t + workers < start + runs && !out_path.is_empty() && out.violations.is_empty() {
                format!("{out_path}.part{part}")
            } else {
                tainted_at = None;
                out_path
            }
        }
        None => out_path,
    };
    if !out_path.is_empty() {
        write_hashes(&out_path, "nontrivial", &out.nontrivial_hashes);
        write_hashes(&out_path, "schedules", &out.schedule_hashes);
        write_hashes(&out_path, "scenarios", &out.scenario_hashes);
        out.nontrivial_hashes.clear();
        out.schedule_hashes.clear();
        out.scenario_hashes.clear();
    }
    let js = serde_json::to_string(&out).unwrap();
    if out_path.is_empty() {
        println!("{js}");
    } else {
        std::fs::write(&out_path, js).unwrap_or_else(|e| die(&format!("{out_path}: {e}")));
    }
    if let Some(t) = tainted_at {
        use std::os::unix::process::CommandExt;
        let mut args: Vec<String> = Vec::new();
        let mut it = std::env::args().skip(1);
        while let Some(x) = it.next() {
            if x == "--resume-at" || x == "--part" {
                let _ = it.next();
            } else {
                args.push(x);
            }
        }
        args.extend(["--resume-at".to_string(), (t + workers).to_string(), "--part".to_string(), (part + 1).to_string()]);
        let e = std::process::Command::new(std::env::current_exe().unwrap_or_else(|e| die(&format!("current_exe: {e}")))).args(args).exec();
        die(&format!("re-exec after a tainted run failed: {e}"));
    }
    if out.violations.is_empty() {
        0
    } else {
        1
    }
}

/// Chains of nested parses (see `c18::DepthCase`): every run is one chain; every fourth run goes
/// to the full `--max-depth`, so every depth up to it is a depth some parse *starts* at.
fn depth_worker(a: &Args) -> i32 {
    let t0 = std::time::Instant::now();
    let seed = a.u64("seed", 1);
    let runs = a.u64("runs", 64);
    let worker = a.u64("worker", 0);
    let workers = a.u64("workers", 1).max(1);
    let max_depth = a.u64("max-depth", 300) as u32;
    let out_path = a.str("out", "");
    let replay_dir = a.str("replay-dir", "/verif/replays");
    let pool = Pool::load(&a.str("repo", &default_repo()));
    let small: Vec<&String> = pool.inputs.iter().filter(|s| s.len() < 500).collect();
    let medium: Vec<&String> = pool.inputs.iter().filter(|s| s.len() < 4000).collect();
    let mut violations: Vec<serde_json::Value> = Vec::new();
    let mut parses = 0u64;
    let mut chains = 0u64;
    let mut deepest = 0u32;
    let mut full = 0u64;
    let mut hashes: Vec<u64> = Vec::new();
    let mut samples: Vec<serde_json::Value> = Vec::new();
    let mut by_flavour: BTreeMap<String, u64> = BTreeMap::new();
    let mut i = worker;
    while i < runs {
        let mut r = rng::Rng::new(mix3(seed, 0xDE97, i));
        let flavour = ["iter", "validator", "ref_check"][(i % 3) as usize].to_string();
        let depth = if i % 4 == 0 {
            max_depth
        } else {
            (*r.pick(&[1u32, 2, 3, 5, 8, 16, 31, 33, 63, 64, 65, 100, 127, 129, 200, 255, 257])).min(max_depth)
        };
        let dc = c18::DepthCase {
            // a third of the chains alternate between two parsers of different configurations
            cfg2: if i % 3 == 1 { Some(if r.chance(1, 2) { scenario::ParserCfg { ext_bits: 0, converter: "empty".into() } } else { scenario::gen_cfg(&mut r) }) } else { None },
            cfg: scenario::gen_cfg(&mut r),
            outer: if small.is_empty() { ">> a: b\nmix @x{1%g} and @@y{}\n".to_string() } else { (*r.pick(&small)).clone() },
            target: if medium.is_empty() { "@a{1} ~{2%min}\n".to_string() } else { (*r.pick(&medium)).clone() },
            depth,
            flavour: flavour.clone(),
        };
        cooklang::verif_seam::reseed(mix3(seed, 0xDE98, i));
        let (v, n, reached) = c18::run_depth_case_reached(&dc);
        parses += n;
        chains += 1;
        deepest = deepest.max(reached);
        if reached == depth {
            full += 1;
        }
        *by_flavour.entry(flavour).or_insert(0) += 1;
        hashes.push(rng::fnv(serde_json::to_string(&dc).unwrap().as_bytes()));
        if samples.is_empty() {
            samples.push(serde_json::json!({"run_index": i, "depth_case": &dc}));
        }
        if !v.is_empty() {
            let rf = ReplayFile {
                property: "C18".into(),
                class: v[0].class.clone(),
                provenance: None,
                prefix_run_indexes: vec![],
                scenario: None,
                sched: None,
                aisle: None,
                depth: Some(dc.clone()),
                storm: None,
                violations: v.clone(),
                minimised: false,
                notes: vec![],
            };
            let p = write_replay(&replay_dir, &format!("C18-depth-{i}"), &rf);
            violations.push(serde_json::json!({"class": rf.class, "replay": p, "detail": v[0].detail, "key": v[0].key, "phase": v[0].phase}));
            if violations.len() >= 3 {
                break;
            }
        }
        i += workers;
    }
    if !out_path.is_empty() {
        write_hashes(&out_path, "nontrivial", &hashes);
    }
    let js = serde_json::json!({"property": "C18", "mode": "depth", "chains": chains, "parses": parses, "deepest": deepest, "chains_reaching_their_depth": full, "by_flavour": by_flavour,
        "violations": violations, "samples": samples, "wall_s": t0.elapsed().as_secs_f64()});
    if out_path.is_empty() {
        println!("{js}");
    } else {
        std::fs::write(&out_path, js.to_string()).unwrap_or_else(|e| die(&format!("{out_path}: {e}")));
    }
    if violations.is_empty() { 0 } else { 1 }
}

/// Fingerprints of a few BIG inputs (above the sizes at which a library would start helper threads,
/// switch algorithms or buffers), printed one per line. check.py runs this in processes that are
/// allowed on 1 CPU, on 2 CPUs and on all of them, and compares the lines: how many CPUs the
/// machine or the calling thread has is not an input of a parse.
fn bigfp(a: &Args) -> i32 {
    let seed = a.u64("seed", 1);
    let n = a.u64("n", 6);
    let only = a.kv.get("only").and_then(|s| s.parse::<u64>().ok());
    let d = dict::get();
    for i in 0..n {
        if only.is_some() && only != Some(i) {
            continue;
        }
        let mut r = rng::Rng::new(mix3(seed, 0xB16F, i));
        let target = [140_000usize, 200_000, 300_000, 520_000, 1_100_000][(i % 5) as usize];
        let mut text = String::new();
        let mut next_long_comment = 60_000usize;
        while text.len() < target {
            // every ~100 KB a block comment of 40-70 KB (recipe-like text inside), opened in one of the
            // ways a comment can be opened: whatever splits a big input into pieces has to get
            // multi-line constructs that are longer than a piece right
            if text.len() >= next_long_comment {
                next_long_comment = text.len() + 100_000;
                text.push_str(r.pick_str(&["[- ", "[-]", "[--", "[-\n", "x [-"]));
                let until = text.len() + 40_000 + r.below(30_000);
                while text.len() < until {
                    // (the body contains no comment delimiters of its own, like a real commented-out passage)
                    text.push_str(&gen::recipe_large(&mut r).replace("-]", "- ]").replace("[-", "[ -"));
                }
                text.push_str(" -]\n\n");
            }
            text.push_str(&gen::recipe_large(&mut r));
            // now and then a line made of tokens from the library's own source and of the
            // degenerate comment forms (whatever a chunked or parallel scanner cuts wrongly)
            if r.chance(1, 2) {
                for _ in 0..r.range(1, 4) {
                    if !d.recipe.is_empty() && r.chance(1, 2) {
                        text.push_str(&d.recipe[r.below(d.recipe.len())]);
                    } else {
                        // (forms that open a comment for good only in every other input, and late)
                        let open_ok = i % 2 == 1 && text.len() > target / 2;
                        text.push_str(if open_ok { r.pick_str(&["[-]", "[-", "[-]-]"]) } else { r.pick_str(&["[- x -]", "-]", "[--]", "-- c", "[-] y -]", "@a{1%g}", "~{5%min}"]) });
                    }
                    text.push(' ');
                }
                text.push_str("\n\n");
            }
        }
        for cfg in [scenario::ParserCfg { ext_bits: scenario::EXT_ALL, converter: "bundled".into() }, scenario::ParserCfg { ext_bits: 0, converter: "empty".into() }] {
            let p = c18::build_parser(&cfg);
            let fp = |f: &dyn Fn() -> String| match std::panic::catch_unwind(std::panic::AssertUnwindSafe(f)) {
                Ok(s) => rng::fnv(s.as_bytes()),
                Err(_) => {
                    let _ = sim::take_last_panic();
                    0xDEAD
                }
            };
            let h1 = fp(&|| format!("{:?}", p.parse(&text)));
            let h2 = fp(&|| format!("{:?}", p.parse_metadata(&text)));
            let h3 = fp(&|| cooklang::parser::PullParser::new(&text, p.extensions()).map(|e| format!("{e:?}")).collect::<Vec<_>>().join("\n"));
            println!("{i}\t{}\t{}\tparse\t{h1:016x}", text.len(), cfg.key());
            println!("{i}\t{}\t{}\tmetadata\t{h2:016x}", text.len(), cfg.key());
            println!("{i}\t{}\t{}\tevents\t{h3:016x}", text.len(), cfg.key());
        }
    }
    0
}

#[derive(Clone, Debug, Serialize, Deserialize, PartialEq)]
pub struct StormCase {
    pub seed: u64,
    pub words: u64,
    pub converter: String,
}

const STORM_PROBES: &[&str] = &[
    "Simmer for 10 min, then ~{10%min} and ~{1%h}.\n",
    "Add @flour{200%g} and @milk{250%ml}, 2 cups of water, 1 tbsp oil.\n",
    "Heat to 180 °C for 2 h. Add @sugar{1%kg} @water{1%l} @salt{1%tsp} @butter{4%oz} @rice{1%lb}.\n",
    ">> time: 1 h 30 min\n>> prep time: 20 minutes\nRest ~{45%s} and 3 day old bread, 5 min.\n",
];

/// One parser, `words` DISTINCT unknown words through everything that looks a unit up (the public
/// `find_unit`, and every 64th word a tiny parse that uses it as a unit, as a timer unit and in
/// running text), and after every `check_every` words the probe recipes again: they must read as
/// they did on a never-used parser. The history axis of "for all sequences of inputs" in its
/// cheapest form - distinct keys by the million - for tables that fill up, spill, rehash, evict or
/// take a fingerprint for the key. Returns (violation, words done at that point).
fn run_storm(seed: u64, words: u64, converter: &str, check_every: u64) -> (Vec<(Violation, u64)>, u64) {
    let cfg = scenario::ParserCfg { ext_bits: scenario::EXT_ALL, converter: converter.to_string() };
    let reference = c18::build_parser(&cfg);
    let fp = |p: &cooklang::CooklangParser, t: &str| match std::panic::catch_unwind(std::panic::AssertUnwindSafe(|| format!("{:?}", p.parse(t)))) {
        Ok(s) => s,
        Err(_) => {
            let _ = sim::take_last_panic();
            "LIBRARY-PANIC".to_string()
        }
    };
    let refs: Vec<String> = STORM_PROBES.iter().map(|t| fp(&reference, t)).collect();
    let p = c18::build_parser(&cfg);
    let mut r = rng::Rng::new(mix3(seed, 0x5702, 0));
    let mut out = Vec::new();
    let mut w = String::new();
    const A: &[u8] = b"abcdefghijklmnopqrstuvwxyz";
    for i in 1..=words {
        w.clear();
        let x = r.next_u64();
        let len = 3 + (x % 7) as usize;
        let mut y = x >> 3;
        for _ in 0..len {
            w.push(A[(y % 26) as usize] as char);
            y /= 26;
        }
        let _ = std::panic::catch_unwind(std::panic::AssertUnwindSafe(|| p.converter().find_unit(&w).is_some()));
        if i % 64 == 0 {
            let t = format!("Fold in 3 {w} of @mix{{2%{w}}} for ~{{5%{w}}}.\n");
            let _ = std::panic::catch_unwind(std::panic::AssertUnwindSafe(|| p.parse(&t).is_valid()));
        }
        if i % check_every == 0 || i == words {
            for (k, t) in STORM_PROBES.iter().enumerate() {
                let got = fp(&p, t);
                if got != refs[k] {
                    out.push((Violation { class: "history-dependence".into(), key: format!("{}|storm", cfg.key()), phase: "storm".into(),
                        detail: format!("after {i} distinct unknown words on one parser (the last one {w:?}) the probe recipe {t:?} reads differently than on a never-used parser") }, i));
                    return (out, i);
                }
            }
        }
    }
    (out, words)
}

fn storm(a: &Args) -> i32 {
    let t0 = std::time::Instant::now();
    let seed = a.u64("seed", 1);
    let words = a.u64("words", 1_000_000);
    let worker = a.u64("worker", 0);
    let out_path = a.str("out", "");
    let replay_dir = a.str("replay-dir", "/verif/replays");
    let converter = if worker % 3 == 2 { "custom-de" } else { "bundled" };
    let s = mix3(seed, 0x5701, worker);
    let (v, done) = run_storm(s, words, converter, 64);
    let mut violations: Vec<serde_json::Value> = Vec::new();
    if let Some((viol, at)) = v.first() {
        let rf = ReplayFile { property: "C18".into(), class: viol.class.clone(), provenance: None, prefix_run_indexes: vec![], scenario: None, sched: None, aisle: None, depth: None,
            storm: Some(StormCase { seed: s, words: *at, converter: converter.to_string() }), violations: vec![viol.clone()], minimised: false,
            notes: vec!["replay repeats the storm up to that word on a fresh parser (the sequence is a function of the seed)".into()] };
        let p = write_replay(&replay_dir, &format!("C18-storm-{worker}"), &rf);
        violations.push(serde_json::json!({"class": rf.class, "replay": p, "detail": viol.detail, "key": viol.key, "phase": viol.phase}));
    }
    let js = serde_json::json!({"property": "C18", "mode": "storm", "words": done, "converter": converter, "probes": STORM_PROBES.len(), "violations": violations, "wall_s": t0.elapsed().as_secs_f64()});
    if out_path.is_empty() {
        println!("{js}");
    } else {
        std::fs::write(&out_path, js.to_string()).unwrap_or_else(|e| die(&format!("{out_path}: {e}")));
    }
    if violations.is_empty() { 0 } else { 1 }
}

/// `Number::new_approx` over a dense grid of values and every parameter set, in an order given by
/// `--order` (asc | desc | shuffled by --seed), one line per call. check.py runs it in three fresh
/// processes with three orders and compares the lines after sorting: the answer for (value,
/// accuracy, max denominator, max whole) may not depend on which other calls came before - the
/// process-wide lazily built fraction table (and whatever sits in front of it) is the one piece of
/// state the property's anchors name.
fn approx_sweep(a: &Args) -> i32 {
    let order = a.str("order", "asc");
    let seed = a.u64("seed", 1);
    let step = a.u64("step", 1).max(1);
    // fractional parts on a 1e-4 grid (every `step`-th), each just below, on and just above it,
    // with 0, 1 and 7 wholes
    let mut calls: Vec<(f64, f32, u8, u32)> = Vec::new();
    let dens: &[u8] = &[0, 1, 2, 3, 4, 5, 8, 10, 15, 16, 17, 32, 64, 255];
    let mut f = 0u64;
    while f < 10_000 {
        for (k, off) in [0.0f64, 0.00004, -0.00004].iter().enumerate() {
            let base = f as f64 / 10_000.0 + off;
            if base < 0.0 {
                continue;
            }
            for &d in dens {
                // all parameter sets for the on-grid value, a rotating one for its two neighbours
                let (acc, whole, wholes) = match (k, (f + d as u64) % 3) {
                    (0, 0) => (1.0f32, 0u32, 0.0),
                    (0, 1) => (0.05, 5, 1.0),
                    (0, _) => (0.1, 100, 7.0),
                    (_, 0) => (1.0, 100, 1.0),
                    (_, 1) => (0.05, 0, 0.0),
                    (_, _) => (1.0, 5, 7.0),
                };
                calls.push((wholes + base, acc, d, whole));
            }
        }
        f += step;
    }
    match order.as_str() {
        "asc" => {}
        "desc" => calls.reverse(),
        _ => {
            let mut r = rng::Rng::new(mix3(seed, 0xA990, 0));
            for i in (1..calls.len()).rev() {
                let j = r.below(i + 1);
                calls.swap(i, j);
            }
        }
    }
    let mut out = std::io::BufWriter::new(std::io::stdout());
    for (v, acc, d, w) in calls {
        let res = match std::panic::catch_unwind(|| cooklang::quantity::Number::new_approx(v, acc, d, w)) {
            Ok(n) => format!("{n:?}"),
            Err(_) => {
                let _ = sim::take_last_panic();
                "LIBRARY-PANIC".to_string()
            }
        };
        let _ = writeln!(out, "{v:.5} {acc} {d} {w} => {res}");
    }
    0
}

fn replay(a: &Args) -> i32 {
    let path = a.pos.get(1).cloned().unwrap_or_else(|| die("replay needs a file"));
    let text = std::fs::read_to_string(&path).unwrap_or_else(|e| die(&format!("{path}: {e}")));
    let rf: ReplayFile = serde_json::from_str(&text).unwrap_or_else(|e| die(&format!("{path}: {e}")));
    let (mut viol, log) = replay_file(&rf, a);
    for l in &log {
        println!("{l}");
    }
    if cfg!(feature = "shadow") && rf.property == "C18" && sim::panic_seen() {
        println!("NOTE: a panic unwound inside the simulation; under the shadow build nothing observed in this process afterwards is reliable (shuttle closes primitives released while panicking), so this replay does not count");
        viol.clear();
    }
    let same: Vec<&Violation> = viol.iter().filter(|v| v.class == rf.class).collect();
    if let Some(v) = same.first() {
        println!("REPRODUCED property={} class={} key={} phase={} :: {}", rf.property, v.class, v.key, v.phase, v.detail);
        println!("VIOLATION property={} replay={}", rf.property, path);
        1
    } else {
        if !viol.is_empty() {
            println!("NOTE: a different class was observed: {:?}", viol.iter().map(|v| &v.class).collect::<Vec<_>>());
        }
        println!("NOT-REPRODUCED property={} class={}", rf.property, rf.class);
        0
    }
}

/// Re-run what a replay file describes; returns the violations observed.
pub fn replay_file(rf: &ReplayFile, a: &Args) -> (Vec<Violation>, Vec<String>) {
    let mut log = Vec::new();
    if rf.property == "C11" {
        let sc = rf.aisle.clone().unwrap_or_else(|| die("C11 replay without aisle scenario"));
        let (v, _) = c11::execute(&sc);
        return (v, log);
    }
    if let Some(sc) = &rf.storm {
        let (v, n) = run_storm(sc.seed, sc.words, &sc.converter, 64);
        log.push(format!("executed: {n} distinct words looked up on one parser"));
        return (v.into_iter().map(|x| x.0).collect(), log);
    }
    if let Some(dc) = &rf.depth {
        let (v, n) = c18::run_depth_case(dc);
        log.push(format!("executed: a chain of {} nested parses ({n} parses in all)", dc.depth));
        return (v, log);
    }
    // a file without a scenario (hang reports) names the run by its provenance only
    if rf.scenario.is_none() {
        let p = rf.provenance.clone().unwrap_or_else(|| die("C18 replay without scenario or provenance"));
        let pool = std::sync::Arc::new(Pool::load(&a.str("repo", &default_repo())));
        let rs = mix3(p.verif_seed, p.salt, p.run_index);
        let s = gen_in_sim(rs, &pool);
        let rp = c18::reference_phase(&s);
        let mut viol = rp.violations.clone();
        for sched in c18::schedules_for(rs, 4, 64) {
            let (v, _) = c18::execute(&rp, &sched, false);
            viol.extend(v);
        }
        return (viol, log);
    }
    let sc = rf.scenario.clone().unwrap_or_else(|| die("C18 replay without scenario"));
    // leaked-state violations need the runs the worker had executed before
    if !rf.prefix_run_indexes.is_empty() && !a.flag("no-prefix") {
        if let Some(p) = &rf.provenance {
            let pool = std::sync::Arc::new(Pool::load(&a.str("repo", &default_repo())));
            log.push(format!("replaying {} earlier runs of the worker first", rf.prefix_run_indexes.len()));
            for &i in &rf.prefix_run_indexes {
                let rs = mix3(p.verif_seed, p.salt, i);
                let s = gen_in_sim(rs, &pool);
                let rp = c18::reference_phase(&s);
                // the same number of executions as the worker made, so that whatever counts
                // parses is in the same state
                let n = a.u64("prefix-scheds", p.scheds.unwrap_or(4) as u64) as usize;
                let mut est = 64u32;
                let mut scheds = c18::schedules_for(rs, n, est);
                for si in 0..n {
                    let (_, st) = c18::execute(&rp, &scheds[si], false);
                    if si == 0 {
                        est = (st.choices.len() as u32).max(8);
                        scheds = c18::schedules_for(rs, n, est);
                    }
                }
            }
        }
    }
    let rp = c18::reference_phase(&sc);
    let mut viol = rp.violations.clone();
    if let Some(sched) = &rf.sched {
        let (v, st) = c18::execute(&rp, sched, a.flag("verbose"));
        log.push(format!("executed: {} seam points, {} context switches, {} scheduler decisions", st.steps, st.switches, st.choices.len()));
        if a.flag("verbose") {
            log.extend(c18::take_log());
        }
        viol.extend(v);
    }
    (viol, log)
}

/// Scenario generation places faults by counting events with the library's pull parser: in the
/// shadow build every call into the library must happen inside an execution.
fn gen_in_sim(rs: u64, pool: &std::sync::Arc<Pool>) -> scenario::Scenario {
    let p = pool.clone();
    c18::in_shuttle(move || gen_scenario(rs, &p))
}

fn main() {
    let a = Args::parse();
    let cmd = a.pos.first().cloned().unwrap_or_default();
    init_process();
    // tokens taken from the library's own source feed the generators
    dict::load(&a.str("repo", &default_repo()));
    // a panic that escapes the guarded sections is a harness error: say so (the silent
    // hook swallowed the message) and exit 2
    let code = std::panic::catch_unwind(std::panic::AssertUnwindSafe(|| dispatch(&cmd, &a))).unwrap_or_else(|_| {
        eprintln!("cooksim: harness error: uncaught panic: {:?}", sim::take_last_panic());
        2
    });
    std::process::exit(code);
}

fn dispatch(cmd: &str, a: &Args) -> i32 {
    let a = a;
    if cfg!(feature = "shadow") && matches!(cmd, "realthreads" | "confirm" | "probe-repeat" | "c11") {
        die("this subcommand runs real threads or needs no shadow build; use the normal cooksim binary");
    }
    match cmd {
        "c18" => c18_worker(a),
        "depth" => depth_worker(a),
        "bigfp" => bigfp(a),
        "storm" => storm(a),
        // decide once, in a process of its own, which large inputs the pool uses (see Pool::load)
        "probe-pool" => {
            let big = Pool::probe_big_inputs();
            let out = a.str("out", "");
            let js = serde_json::to_string(&big).unwrap();
            if out.is_empty() {
                println!("{}", js.len());
            } else {
                std::fs::write(&out, js).unwrap_or_else(|e| die(&format!("{out}: {e}")));
            }
            0
        }
        "approx" => approx_sweep(a),
        "c11" => c11::worker(a),
        "replay" => replay(a),
        "minimise" => minimise::run(a),
        "distinct" => distinct(a),
        "probe-custom" => {
            let p = c18::build_parser(&scenario::ParserCfg { ext_bits: scenario::EXT_ALL, converter: "custom-de".into() });
            let b = c18::build_parser(&scenario::ParserCfg { ext_bits: scenario::EXT_ALL, converter: "bundled".into() });
            let si = c18::build_parser(&scenario::ParserCfg { ext_bits: scenario::EXT_ALL, converter: "custom-si".into() });
            println!("custom units={} EL={:?} | bundled units={} EL={:?} | si Kg={:?} dekagram={:?} bundled Kg={:?}", p.converter().unit_count(), p.converter().find_unit("EL").map(|u| u.symbol().to_string()), b.converter().unit_count(), b.converter().find_unit("EL").is_some(), si.converter().find_unit("Kg").map(|u| u.symbol().to_string()), si.converter().find_unit("dekagram").is_some(), b.converter().find_unit("Kg").is_some());
            0
        }
        // diagnostic: does the very long input of the pool produce an output at all?
        "probe-xl" => {
            let pool = Pool::load(&a.str("repo", &default_repo()));
            let p = c18::build_parser(&scenario::ParserCfg { ext_bits: scenario::EXT_ALL, converter: "bundled".into() });
            let r = p.parse(&pool.xl);
            println!("xl bytes={} has_output={} errors={} warnings={}", pool.xl.len(), r.has_output(), r.report().errors().count(), r.report().warnings().count());
            for e in r.report().errors().take(5) {
                println!("ERR {}", e.message);
            }
            if let Some(o) = r.output() {
                println!("ingredients={} inline_quantities={} sections={}", o.ingredients.len(), o.inline_quantities.len(), o.sections.len());
            }
            0
        }
        "dict" => {
            println!("{:#?}", dict::get());
            0
        }
        // the stored schedule of a (minimised) file does not reproduce in this fresh process:
        // search seeded schedules for one that does and store it (exit 1 = found and rewritten)
        "research" => {
            let path = a.pos.get(1).cloned().unwrap_or_else(|| die("research needs a file"));
            let text = std::fs::read_to_string(&path).unwrap_or_else(|e| die(&format!("{path}: {e}")));
            let mut rf: ReplayFile = serde_json::from_str(&text).unwrap_or_else(|e| die(&format!("{path}: {e}")));
            let Some(sc) = rf.scenario.clone() else { die("research needs a scenario") };
            let rp = c18::reference_phase(&sc);
            let tries = a.u64("tries", 4000);
            let mut found = None;
            for i in 0..tries {
                let sched = match i % 4 {
                    0 => SchedSpec::Random { seed: i, stay: 0 },
                    1 => SchedSpec::Pct { seed: i, depth: 3, est: 64 },
                    2 => SchedSpec::Random { seed: i, stay: 80 },
                    _ => SchedSpec::Pct { seed: i, depth: 5, est: 200 },
                };
                let (v, st) = c18::execute(&rp, &sched, false);
                if v.iter().any(|x| x.class == rf.class) {
                    found = Some((st.choices, v, i));
                    break;
                }
            }
            match found {
                Some((choices, v, i)) => {
                    rf.sched = Some(SchedSpec::List { choices });
                    let class = rf.class.clone();
                    rf.violations = v.into_iter().filter(|x| x.class == class).take(3).collect();
                    rf.notes.push(format!("schedule re-searched in a fresh process (found at try {i})"));
                    std::fs::write(&path, serde_json::to_string_pretty(&rf).unwrap()).unwrap_or_else(|e| die(&format!("{path}: {e}")));
                    println!("RESEARCH-FOUND try={i}");
                    1
                }
                None => {
                    println!("RESEARCH-NOT-FOUND tries={tries}");
                    0
                }
            }
        }
        // print the scenario of a run index (embedded into replay files that name a run only)
        "scenario" => {
            let pool = Pool::load(&a.str("repo", &default_repo()));
            let rs = mix3(a.u64("seed", 1), a.u64("salt", 1), a.u64("run-index", 0));
            println!("{}", serde_json::to_string(&gen_in_sim(rs, &std::sync::Arc::new(pool))).unwrap());
            0
        }
        // is the violation of a replay file realisable on real threads / one thread?
        "confirm" => {
            let path = a.pos.get(1).cloned().unwrap_or_else(|| die("confirm needs a file"));
            let text = std::fs::read_to_string(&path).unwrap_or_else(|e| die(&format!("{path}: {e}")));
            let rf: ReplayFile = serde_json::from_str(&text).unwrap_or_else(|e| die(&format!("{path}: {e}")));
            let Some(sc) = rf.scenario.clone() else { die("confirm needs a scenario") };
            c18::NO_SOAK.store(true, std::sync::atomic::Ordering::Relaxed);
            let (ok, how) = c18::confirm(&sc, &rf.class, a.u64("tries", 3000));
            println!("{} {how}", if ok { "CONFIRMED" } else { "UNCONFIRMED" });
            if ok { 1 } else { 0 }
        }
        // diagnostic: parse generated inputs twice in a row on one parser, count differing pairs
        "probe-repeat" => {
            let p = c18::build_parser(&scenario::ParserCfg { ext_bits: scenario::EXT_ALL, converter: "bundled".into() });
            let n = a.u64("n", 2000);
            let mut diff = 0;
            let mut refnf = 0;
            let mut none = 0;
            for i in 0..n {
                let mut r = rng::Rng::new(rng::mix2(77, i));
                let text = if a.flag("large") { gen::recipe_large(&mut r) } else { gen::recipe(&mut r) };
                let a1 = format!("{:?}", std::panic::catch_unwind(std::panic::AssertUnwindSafe(|| p.parse(&text))).ok());
                let a2 = format!("{:?}", std::panic::catch_unwind(std::panic::AssertUnwindSafe(|| p.parse(&text))).ok());
                if a1 != a2 {
                    diff += 1;
                }
                if a1.contains("Reference not found") {
                    refnf += 1;
                }
                if a1.contains("output: None") {
                    none += 1;
                    if a.flag("why") {
                        let r = p.parse(&text);
                        for e in r.report().errors() {
                            println!("ERR {}", e.message);
                        }
                    }
                }
            }
            println!("pairs={n} differing={diff} with_reference_not_found={refnf} without_output={none}");
            0
        }
        "realthreads" => {
            // regenerate the scenario of a run index and execute it on real OS threads
            let pool = Pool::load(&a.str("repo", &default_repo()));
            let rs = mix3(a.u64("seed", 1), a.u64("salt", 1), a.u64("run-index", 0));
            let sc = gen_in_sim(rs, &std::sync::Arc::new(pool));
            let v = c18::run_real_threads(&sc);
            for x in &v {
                println!("REAL-THREADS class={} key={} :: {}", x.class, x.key, x.detail);
            }
            println!("REAL-THREADS-DONE violations={}", v.len());
            if v.is_empty() { 0 } else { 1 }
        }
        _ => die("usage: cooksim c18|c11|replay|minimise ..."),
    }
}
