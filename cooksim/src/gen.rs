//! Seeded workload generators. They exist to reach the *stateful* paths of a
//! parse (modes, metadata map, step counters, references, reports), not to
//! cover the input space.

use crate::rng::Rng;

const NAMES: &[&str] = &[
    "flour", "water", "salt", "olive oil", "eggs", "sugar", "tomato sauce", "milk", "butter",
    "thyme", "pâte brisée", "crème fraîche", "onion", "garlic", "7up", "dough",
    // names that look like relative paths (files of these names exist in one process environment
    // of the selftest: nothing may depend on the file system)
    "pasta/spaghetti", "salt/pepper", "sauces/tomato sauce",
    // ... and names written as relative paths, which is how recipes reference other recipes
    "./sauces/tomato", "../base/stock", "./dough", "./a/b/c", ".\\win\\dir\\x",
];
const COOKWARE: &[&str] = &["pan", "oven", "big bowl", "whisk", "pot", "baking tray"];
const UNITS: &[&str] = &[
    "g", "kg", "ml", "l", "cup", "cups", "tsp", "tbsp", "oz", "lb", "min", "minutes", "h", "bag",
    "°C", "F", "pinch", "", "c", "C", "m", "EL", "Gramm", "Tasse",
];
const TIME_UNITS: &[&str] = &["min", "minutes", "h", "s", "hour", ""];
const WORDS: &[&str] = &[
    "Add", "the", "and", "mix", "until", "combined", "then", "bake", "for", "about", "Let", "rest",
    "Préchauffer", "à", "stir", "well", "180 °C", "20 ºC", "350 F", "1/2", "3", "–", "ñ", "🍅",
    "2 cups", "2 Cups", "5 min", "5 Min", "3 c", "3 C", "100 g", "100 G", "2 EL", "3 Tassen", "20 Minuten", "1 Liter", "2 Kg", "1 dekagram", "3 KL", "5 dal",
    // short block comments and other comment shapes
    "[- x -]", "[--]", "[-a-]", "[- ok -]", "[- v2 -]", "[-  -]", "[- or -]", "a[-b-]c",
    // two-character delimiters that overlap but close again
    "[-] x -]", "[---]", "-]",
];
/// ... and forms that open a comment which never closes (they swallow the rest of the input, so
/// they are confined to the inputs that may contain malformed constructs)
const OPEN_COMMENTS: &[&str] = &["[-]", "[-]-]", "[-[-", "[- ", "--]"];
const META_KEYS: &[&str] = &[
    "time", "prep time", "cook time", "servings", "tags", "source", "author", "title",
    "description", "course", "locale", "difficulty", "[mode]", "[define]", "[duplicate]", "[x]",
    "time required", "duration", "yield", "serves", "name", "image",
    "date", "date", "created", "updated", "published", "last made", "best before",
];
const MODE_VALS: &[&str] = &[
    "all", "default", "components", "ingredients", "steps", "text", "new", "reference", "ref",
    "bogus",
];

fn number(r: &mut Rng) -> String {
    match r.below(9) {
        0 => format!("{}", r.range(1, 12)),
        1 => format!("{}.{}", r.range(0, 9), r.range(1, 99)),
        2 => format!("{}/{}", r.range(1, 7), r.range(2, 8)),
        3 => format!("{} {}/{}", r.range(1, 3), r.range(1, 3), r.range(2, 4)),
        4 => format!("{}-{}", r.range(1, 4), r.range(5, 9)),
        5 => format!("{}", r.range(100, 1000)),
        6 => "a pinch".to_string(),
        7 if r.chance(1, 2) => match r.below(4) {
            // spellings a grammar gives no reason to produce: decimal comma, thousands separator,
            // leading zero, exponent
            0 | 1 => format!("{},{}", r.range(0, 9), r.range(1, 9)),
            2 => format!("{}.{:03}", r.range(1, 9), r.range(0, 999)),
            _ => format!("0{}", r.range(1, 9)),
        },
        _ => format!("{}", r.range(1, 5) as f64 * 0.25),
    }
}

/// a unit, sometimes with unusual letter case (units are case-sensitive: `c` is a cup, `C` is Celsius)
fn unit(r: &mut Rng, units: &[&str]) -> String {
    // one unit in six comes from the bundled units file itself (names, symbols, aliases)
    let d = crate::dict::get();
    let u = if !d.units.is_empty() && r.chance(1, 6) { r.pick(&d.units).clone() } else { r.pick_str(units).to_string() };
    match r.below(10) {
        0 => u.to_uppercase(),
        1 => {
            let mut c = u.chars();
            match c.next() {
                Some(f) => f.to_uppercase().collect::<String>() + c.as_str(),
                None => u,
            }
        }
        // near misses of a known unit: the name plus a suffix, or minus its last character - what a
        // lookup keyed by a prefix, a truncated or a stemmed form of the word confuses with the unit
        2 if !u.is_empty() => format!("{u}{}", r.pick_str(&["s", "es", ",", ".", ")", "x", "fuls", "mes"])),
        3 if u.chars().count() > 2 => {
            let mut c: Vec<char> = u.chars().collect();
            c.pop();
            c.into_iter().collect()
        }
        _ => u,
    }
}

fn quantity(r: &mut Rng, units: &[&str], invalid: bool) -> String {
    match r.below(10) {
        0 => "{}".into(),
        1 => format!("{{{}}}", number(r)),
        2 => format!("{{{} {}}}", number(r), unit(r, units)),
        3 => format!("{{={}%{}}}", number(r), unit(r, units)),
        4 if invalid => format!("{{{}%}}", number(r)),
        5 if invalid => format!("{{%{}}}", unit(r, units)),
        _ => format!("{{{}%{}}}", number(r), unit(r, units)),
    }
}

fn ingredient(r: &mut Rng, seen: &mut Vec<String>, invalid: bool) -> String {
    let name = if !seen.is_empty() && r.chance(1, 2) {
        r.pick(seen).clone()
    } else {
        // a fifth of the new names are (nearly) unique in the process: tables of names that
        // grow, fill up, spill or wrap need a supply of distinct keys
        let n = if r.chance(1, 5) {
            format!("{} no {}", r.pick_str(NAMES), r.below(1_000_000))
        } else if r.chance(1, 25) {
            // long names around the lengths where inline buffers, bit masks and length-keyed
            // filters change behaviour (15/16, 31/32, 63/64, 127/128, 255/256); names of one
            // length share everything but the last word, so imprecise keys collide
            let target = *r.pick(&[15usize, 16, 23, 24, 31, 32, 33, 63, 64, 65, 127, 128, 129, 255, 256, 257]);
            let mut n = r.pick_str(NAMES).to_string();
            while n.len() + 5 < target {
                n.push_str(" very");
            }
            while n.len() + 1 < target {
                n.push('x');
            }
            n.push(*r.pick(&['a', 'b', 'c']));
            n
        } else {
            r.pick_str(NAMES).to_string()
        };
        seen.push(n.clone());
        n
    };
    let mods = match r.below(14) {
        0 => "&",
        1 => "?",
        2 => "-",
        3 => "+",
        4 => "@",
        5 if invalid => "&(~1)",
        6 if invalid => "&(1)",
        7 if invalid => "&(=~1)",
        8 => "&?",
        9 if invalid => "&(x)",
        10 | 11 => "&",
        _ => "",
    };
    let alias = if r.chance(1, 8) { "|alias" } else { "" };
    let q = if name.contains(' ') || r.chance(3, 4) {
        quantity(r, UNITS, invalid)
    } else {
        String::new()
    };
    let note = if r.chance(1, 8) { "(chopped)" } else { "" };
    format!("@{mods}{name}{alias}{q}{note}")
}

fn step(r: &mut Rng, seen: &mut Vec<String>, invalid: bool) -> String {
    let mut s = String::new();
    let n = r.range(1, 8);
    for i in 0..n {
        if i > 0 {
            s.push(' ');
        }
        match r.below(12) {
            0..=2 => s.push_str(&ingredient(r, seen, invalid)),
            3 => {
                s.push('#');
                let c = r.pick(COOKWARE);
                s.push_str(c);
                if c.contains(' ') || r.chance(1, 2) {
                    s.push_str(&if r.chance(1, 3) {
                        format!("{{{}}}", r.range(1, 3))
                    } else {
                        "{}".to_string()
                    });
                }
            }
            4 => {
                s.push('~');
                if r.chance(1, 3) {
                    s.push_str("rest");
                }
                if invalid {
                    s.push_str(&quantity(r, TIME_UNITS, true));
                } else {
                    s.push_str(&format!("{{{}%{}}}", r.range(1, 90), r.pick_str(&["min", "minutes", "h", "s", "hour"])));
                }
            }
            5 if !invalid => s.push_str(r.pick_str(WORDS)),
            5 if r.chance(1, 6) => s.push_str(r.pick_str(OPEN_COMMENTS)),
            5 => s.push_str(match r.below(8) {
                0 => "@{}",
                1 => "~{}",
                2 => "@a{1",
                3 => "#{2}",
                4 => "@b{%}",
                5 => "~x",
                6 => "@c{1%g}{2}",
                _ => "[- inline comment -]",
            }),
            6 if r.chance(1, 3) => {
                s.push_str("-- trailing comment");
            }
            7 if r.chance(1, 3) => {
                // a token from the library's own source (see dict.rs). Tokens made of syntax
                // characters turn a step into a hard parser error (`~ ` is a timer without a
                // quantity, `>>` an empty metadata entry), and one hard error anywhere means no
                // output at all: in inputs that are meant to be well-formed only the others are used
                let d = crate::dict::get();
                if !d.recipe.is_empty() {
                    let t = &d.recipe[r.below(d.recipe.len())];
                    if invalid || !t.contains(['~', '@', '#', '>', '{', '}', '[', ']', '-', '=', '%', '|', '(', ')', '&', ':']) {
                        s.push_str(t);
                    } else {
                        s.push_str(r.pick_str(WORDS));
                    }
                } else {
                    s.push_str(r.pick_str(WORDS));
                }
            }
            // a quantity in running text (inline quantities): any number spelling, any unit token
            8 => s.push_str(&format!("{} {}", number(r), unit(r, UNITS))),
            _ => s.push_str(r.pick_str(WORDS)),
        }
        if r.chance(1, 10) {
            s.push('\n'); // soft line break inside a step
        }
    }
    s
}

/// (year, month, day, hour, minute, second) of a Unix time stamp, UTC
pub fn civil(ts: i64) -> (i64, u32, u32, u32, u32, u32) {
    let days = ts.div_euclid(86_400);
    let secs = ts.rem_euclid(86_400);
    let z = days + 719_468;
    let era = z.div_euclid(146_097);
    let doe = z.rem_euclid(146_097);
    let yoe = (doe - doe / 1_460 + doe / 36_524 - doe / 146_096) / 365;
    let y = yoe + era * 400;
    let doy = doe - (365 * yoe + yoe / 4 - yoe / 100);
    let mp = (5 * doy + 2) / 153;
    let d = (doy - (153 * mp + 2) / 5 + 1) as u32;
    let m = if mp < 10 { mp + 3 } else { mp - 9 } as u32;
    (if m <= 2 { y + 1 } else { y }, m, d, (secs / 3600) as u32, (secs % 3600 / 60) as u32, (secs % 60) as u32)
}

/// A calendar date or time stamp as people write it into metadata. The instants cluster around
/// the start of simulated time (the clock seam makes "now" a known quantity: a value a few seconds,
/// hours or days ahead of it is crossed by a clock jump or by time running fast) and around the
/// dates the clock jumps to; some are impossible dates.
pub fn date_value(r: &mut Rng) -> String {
    let now = crate::clock::EPOCH_A;
    let ts = match r.below(14) {
        0 => now + r.range(1, 30) as i64,
        1 => now + r.range(1, 48) as i64 * 3600,
        2 => now - r.range(1, 48) as i64 * 3600,
        3 => now + r.range(2, 400) as i64 * 86_400,
        4 => now - r.range(2, 4000) as i64 * 86_400,
        5 => now,
        6 => 2_147_483_647 + r.range(0, 3) as i64 - 1,
        7 => 0,
        8 => 951_782_400,
        9 => 2_400_000_000 - r.range(0, 400) as i64 * 86_400,
        10 => now - 20 * 365 * 86_400 + r.range(0, 800) as i64 * 86_400,
        11 => 1_798_761_599 + r.range(0, 2) as i64,
        12 => now + 86_400 - 14 * 3600 + r.range(0, 7200) as i64 - 3600,
        _ => r.range(0, 2_000_000_000) as i64,
    };
    let (y, m, d, h, mi, sec) = civil(ts);
    match r.below(12) {
        0..=4 => format!("{y:04}-{m:02}-{d:02}"),
        5 => format!("{y:04}-{m:02}-{d:02}T{h:02}:{mi:02}:{sec:02}Z"),
        6 => format!("{y:04}-{m:02}-{d:02} {h:02}:{mi:02}"),
        7 => format!("{y:04}-{m:02}-{d:02}T{h:02}:{mi:02}:{sec:02}+14:00"),
        8 => format!("{y:04}-{m:02}-{d:02}T{h:02}:{mi:02}:{sec:02}.500-12:00"),
        9 => format!("{d:02}.{m:02}.{y:04}"),
        10 => r.pick_str(&["2023-02-29", "2100-02-29", "2024-13-01", "0000-00-00", "9999-12-31", "2024-1-2", "24-01-02", "2026-01-15T24:00:00Z"]).to_string(),
        _ => format!("{m}/{d}/{y}"),
    }
}

/// a value of any of the shapes metadata values come in
fn any_meta_value(r: &mut Rng) -> String {
    match r.below(8) {
        0 | 1 => date_value(r),
        2 => format!("{} min", r.range(1, 90)),
        3 => format!("{}", r.range(1, 3000)),
        4 => "a, b c, d".to_string(),
        5 => "Mom <https://mom.example>".to_string(),
        6 => r.pick_str(&["true", "~", "", "2|4", "1h 30min", "1.5"]).to_string(),
        _ => r.pick_str(WORDS).to_string(),
    }
}

fn meta_line(r: &mut Rng) -> String {
    // one key in five is a key the library's own metadata code mentions (see dict.rs), with a
    // value of any shape
    let d = crate::dict::get();
    if !d.meta_keys.is_empty() && r.chance(1, 5) {
        let k = r.pick(&d.meta_keys).clone();
        return format!(">> {k}: {}", any_meta_value(r));
    }
    let k = r.pick(META_KEYS);
    let v = match *k {
        "date" | "created" | "updated" | "published" | "last made" | "best before" => date_value(r),
        "time" | "prep time" | "cook time" | "time required" | "duration" => match r.below(8) {
            // values that are not a whole number of minutes, and compound ones
            5 => "50 sec".to_string(),
            6 => "1 h 20 min 30 sec".to_string(),
            7 => r.pick_str(&["1.5", "90 s", "0.5 h", "1 day 2 hours", "2 Stunden"]).to_string(),
            0 => "1h 30min".to_string(),
            1 => format!("{} min", r.range(1, 90)),
            2 => format!("{}", r.range(1, 90)),
            3 => "soon".to_string(),
            _ => format!("{} h", r.range(1, 4)),
        },
        "servings" | "serves" | "yield" => match r.below(4) {
            0 => format!("{}", r.range(1, 8)),
            1 => "2|4|6".to_string(),
            2 => "many".to_string(),
            _ => "4 people".to_string(),
        },
        "tags" => "a, b c, d".to_string(),
        "locale" => r.pick_str(LOCALES).to_string(),
        "source" | "author" => "Mom <https://mom.example>".to_string(),
        "[mode]" | "[define]" | "[duplicate]" | "[x]" => r.pick(MODE_VALS).to_string(),
        _ => r.pick(WORDS).to_string(),
    };
    format!(">> {k}: {v}")
}

const LOCALES: &[&str] = &["de", "es_ES", "fr", "en_US", "de_CH", "pt-BR", "en", "it_IT", "xx", "es_MX"];

fn frontmatter(r: &mut Rng) -> String {
    let mut s = String::from("---\n");
    for _ in 0..r.range(0, 5) {
        let d = crate::dict::get();
        if !d.meta_keys.is_empty() && r.chance(1, 5) {
            let k = r.pick(&d.meta_keys).clone();
            let v = any_meta_value(r);
            s.push_str(&if v.contains(": ") || v.starts_with(['~', '|', '<', '[']) || r.chance(1, 3) { format!("{k}: \"{}\"\n", v.replace('"', "'")) } else { format!("{k}: {v}\n") });
            continue;
        }
        let k = *r.pick(META_KEYS);
        let k = k.trim_matches(|c| c == '[' || c == ']');
        if k == "locale" {
            s.push_str(&format!("locale: {}\n", r.pick_str(LOCALES)));
            continue;
        }
        if matches!(k, "date" | "created" | "updated" | "published" | "last made" | "best before") {
            let v = date_value(r);
            s.push_str(&if r.chance(1, 3) { format!("{k}: \"{v}\"\n") } else { format!("{k}: {v}\n") });
            continue;
        }
        let v = match r.below(10) {
            0 => "1h 30min".to_string(),
            1 => format!("{}", r.range(1, 90)),
            2 => "[a, b]".to_string(),
            // YAML values of other shapes: sequences with entries of the wrong type, nested
            // collections, booleans, null, dates
            7 => r.pick_str(&["[a, true, b]", "[vegan, quick, true]", "[a, [b]]", "[a, {x: 1}]", "[a, b, 3.5]", "[b, a, a]", "[]", "[~, a]"]).to_string(),
            8 => r.pick_str(&["true", "~", "2024-01-02", "{a: 1, b: [c]}", "\n  - a\n  - b\n  - 3", "'single ''quoted'''", "|\n  block\n  text"]).to_string(),
            9 => r.pick_str(&["a, b", "vegan", "a", "[vegan, dinner]", "[a]"]).to_string(),
            3 => "\n  prep: 10 min\n  cook: 1 h".to_string(),
            4 => "\"quoted: text\"".to_string(),
            5 => ": bad".to_string(),
            _ => r.pick(WORDS).to_string(),
        };
        s.push_str(&format!("{k}: {v}\n"));
    }
    s.push_str("---\n");
    s
}

/// A recipe source biased towards constructs that carry state inside a parse.
pub fn recipe(r: &mut Rng) -> String {
    let mut out = String::new();
    let mut seen = Vec::new();
    // a hard parser error makes the analysis bail out, so only a third of the inputs may
    // contain malformed constructs at all
    let invalid = r.chance(1, 3);
    if r.chance(1, 4) {
        out.push_str(&frontmatter(r));
    }
    let blocks = r.range(1, 7);
    for _ in 0..blocks {
        match r.below(12) {
            0..=2 => {
                out.push_str(&meta_line(r));
                out.push('\n');
            }
            3 => {
                out.push_str(match r.below(4) {
                    0 => "== Dough ==\n",
                    1 => "= Sauce\n",
                    2 => "==\n",
                    _ => "=== Très long ===\n",
                });
            }
            4 => {
                out.push_str("> ");
                out.push_str(r.pick_str(WORDS));
                out.push_str(" note text\n");
            }
            5 if r.chance(1, 2) => out.push_str("-- a comment line\n"),
            _ => {
                out.push_str(&step(r, &mut seen, invalid));
                out.push('\n');
            }
        }
        if r.chance(2, 3) {
            out.push('\n');
        }
    }
    if r.chance(1, 6) {
        out = out.replace('\n', "\r\n");
    }
    if r.chance(1, 8) {
        while out.ends_with('\n') || out.ends_with('\r') {
            out.pop();
        }
    }
    out
}

/// A long recipe: many steps, ingredients, references and diagnostics (size thresholds,
/// pooled buffers, tables that spill or wrap only show on inputs like this).
pub fn recipe_large(r: &mut Rng) -> String {
    let mut out = String::new();
    let mut seen = Vec::new();
    for _ in 0..r.range(0, 12) {
        out.push_str(&meta_line(r));
        out.push('\n');
    }
    let steps = *r.pick(&[20usize, 60, 150, 400]);
    for i in 0..steps {
        if i % 37 == 36 {
            out.push_str("== Part ==\n\n");
        }
        out.push_str(&step(r, &mut seen, false));
        out.push_str("\n\n");
        if seen.len() > 40 {
            seen.truncate(20);
        }
    }
    out
}

/// Hand-written inputs that hit modes, time overrides, front matter, references
/// and malformed constructs.
pub const HANDWRITTEN: &[&str] = &[
    ">> time: 1 h\n>> prep time: 10 min\n>> cook time: 50 min\nMix @flour{200%g} and @water{100%ml}.\n",
    ">> prep time: 10 min\n>> cook time: 50 min\n>> time: 1 h\nBake ~{50%min}.\n",
    ">> cook time: 50 min\n>> time: 1 h\n>> prep time: 10 min\n>> time: 2 h\nText.\n",
    ">> [mode]: components\n@flour{1%kg}\n@water{1%l}\n>> [mode]: steps\nMix @flour{200%g} and @water.\n>> [mode]: text\nJust text @notparsed.\n",
    ">> [duplicate]: ref\nAdd @water{1%l} then @water{2%l} and @+water{3}.\n\nAdd @&(~1)mix{} and ~{5%min}.\n",
    "---\ntitle: Test\nservings: 2|4\ntime: 1h\nprep time: 5 min\ntags: [a, b]\n---\nPreheat #oven to 180 °C. Add @salt{1%pinch}.\n",
    "---\n: bad yaml\n---\n@a{1}\n",
    "== A ==\nStep one @a{1%g}.\n\nStep two @&a{2%g} and @&(~1)thing{}.\n\n== B ==\n> text block\n\nStep @b{1-2%cups} ~timer{1/2%h} #pan{}.\n",
    "@a{1%g} @&a{1%ml} @&a{some} @b{} @&c{}\n@@other recipe{1} @@./path/to/r{}\n",
    "@{} ~{} #{} @a{1 @b{%} ~x\n[- unterminated\n",
    ">> servings: 2|4|6\n>> tags: x\n@eggs{2|4|6} @milk{1|2} @oil{=1%tbsp} @rice{1.5%cups}\n",
    "Heat to 350 F or 180 ºC for 2 h, then 1/3 cup of @sugar{1/3%cup}.\n",
];

const AISLE_NAMES: &[&str] = &[
    "milk", "butter", "tuna", "chicken of the sea", "potatoes", "a", "b", "é", "crème", "[x]",
    "[", "]", "x]", "[y", "a b", "🍅", "/", "a/", "/b", "-", "",
    "A", "B", "Milk", "MILK", "Maße", "Masse", "É", "a  b", "a\tb", "ﬁ", "fi",
    "tomato", "tomatoes", "egg", "eggs", "potato", "radish", "radishes", "bus",
];
const AISLE_CATS: &[&str] = &[
    "produce", "dairy", "canned goods", "c", "é", "", " spaced ", "a]b", "[", "x y z", "deli",
];
const AISLE_WS: &[&str] = &["", " ", "  ", "\t", "\u{a0}", "\u{b}", "\u{2003}", " \t "];

/// A structured aisle file: categories / ingredient lines / synonyms rendered
/// with random spacing, comments, blank lines and line endings.
pub fn aisle_structured(r: &mut Rng) -> String {
    let mut s = String::new();
    let nl = if r.chance(1, 5) { "\r\n" } else { "\n" };
    let dup_ok = r.chance(1, 10); // sometimes allow duplicates (error paths)
    let mut used: Vec<String> = Vec::new();
    if r.chance(1, 8) {
        // ingredient before any category: "Expected category"
        s.push_str(r.pick_str(AISLE_NAMES));
        s.push_str(nl);
    }
    let ncat = r.range(0, 4);
    for ci in 0..ncat {
        let cat = if dup_ok || r.chance(1, 2) {
            r.pick(AISLE_CATS).to_string()
        } else {
            format!("cat{ci}")
        };
        s.push_str(r.pick_str(AISLE_WS));
        s.push('[');
        s.push_str(&cat);
        s.push(']');
        s.push_str(r.pick_str(AISLE_WS));
        if r.chance(1, 6) {
            s.push_str("// comment");
        }
        s.push_str(nl);
        for _ in 0..r.range(0, 4) {
            let nn = r.range(1, 3);
            let mut line = String::new();
            for j in 0..nn {
                let mut n = r.pick(AISLE_NAMES).to_string();
                {
                    let d = crate::dict::get();
                    if !d.aisle.is_empty() && r.chance(1, 10) {
                        let t = r.pick(&d.aisle).clone();
                        n = match r.below(3) {
                            0 => format!("{t}{n}"),
                            1 => format!("{n}{t}"),
                            _ => t,
                        };
                    }
                }
                // a name derived from one that is already in the file: its plural or singular, a
                // prefix of it, it plus a word, another case - what a lookup that stems, folds or
                // truncates its keys confuses with the original (on another line, in either order)
                if !used.is_empty() && r.chance(1, 6) {
                    let base = r.pick(&used).clone();
                    let base = base.trim();
                    if base.chars().count() >= 2 {
                        n = match r.below(8) {
                            0 | 1 => format!("{base}s"),
                            2 => format!("{base}es"),
                            3 => base.strip_suffix("es").or_else(|| base.strip_suffix('s')).unwrap_or(base).to_string(),
                            4 => {
                                let mut c: Vec<char> = base.chars().collect();
                                c.pop();
                                c.into_iter().collect()
                            }
                            5 => format!("{base} x"),
                            6 => base.to_uppercase(),
                            _ => format!("\"{base}\""),
                        };
                    }
                }
                if !dup_ok && used.contains(&n) {
                    n = format!("{n}{}", used.len());
                }
                used.push(n.clone());
                if j > 0 {
                    line.push('|');
                }
                line.push_str(r.pick_str(AISLE_WS));
                line.push_str(&n);
                line.push_str(r.pick_str(AISLE_WS));
            }
            s.push_str(&line);
            if r.chance(1, 8) {
                s.push_str(" // c");
            }
            s.push_str(nl);
            if r.chance(1, 5) {
                s.push_str(nl);
            }
        }
        if r.chance(1, 2) {
            s.push_str(nl);
        }
    }
    if r.chance(1, 6) {
        while s.ends_with('\n') || s.ends_with('\r') {
            s.pop();
        }
    }
    s
}

pub const AISLE_ALPHABET: &[&str] = &[
    "[", "]", "|", "/", "\n", " ", "a", "b", "\r\n", "\t", "é", "\u{a0}", "//", "\r", "\u{b}",
    "\u{85}", "\u{2028}", "A", "\u{feff}", "\u{c}", "É",
];

/// Token soup over the format's alphabet
pub fn aisle_soup(r: &mut Rng) -> String {
    let n = r.range(0, 14);
    let k = if r.chance(1, 2) { 7 } else { AISLE_ALPHABET.len() };
    let d = crate::dict::get();
    let with_dict = !d.aisle.is_empty() && r.chance(1, 2);
    let mut s = String::new();
    for _ in 0..n {
        if with_dict && r.chance(1, 3) {
            s.push_str(&d.aisle[r.below(d.aisle.len())]);
        } else {
            s.push_str(AISLE_ALPHABET[r.below(k)]);
        }
    }
    s
}

/// The files of the unit tests in src/aisle.rs
pub const AISLE_UNIT_FILES: &[&str] = &[
    "\n[produce]\npotatoes\n\n[dairy]\nmilk\nbutter\n",
    "",
    "\n[empty]\n",
    "\n[produce]\npotatoes\n[dairy]\nmilk\n",
    "[canned goods]\ntuna|chicken of the sea\n",
    "[first]\nme\n[seconds]\nme",
    "[cat]\n[cat]\n",
    "\n[produce]\npotatoes\n\n[dairy]\nmilk\nbutter\n[deli]\nchicken\n\n[canned goods]\ntuna|chicken of the sea\n\n[empty category]\n[another]\n",
    "|",
    "[a]\n|",
    "[c]\n\u{a0}[a]",
    "[c]\n\u{a0}",
];

/// A large structured file: many categories, long synonym lists, long names, so that the
/// written output crosses typical buffer sizes (4 KiB, 8 KiB) and counters reach two digits.
pub fn aisle_large(r: &mut Rng) -> String {
    let mut s = String::new();
    let ncat = *r.pick(&[3usize, 12, 40, 130, 300]);
    let long = r.chance(1, 3);
    let filler = *r.pick(&['x', 'x', '\u{e9}', '\u{20ac}', '\u{1f345}']);
    let mut id = 0usize;
    // half of the large files contain exactly one duplicate somewhere
    let dup_at = if r.chance(1, 2) { Some(r.range(1, 400)) } else { None };
    for c in 0..ncat {
        s.push_str(&format!("[cat {c}]\n"));
        let nl = if r.chance(1, 6) { 0 } else { r.range(1, 5) };
        for _ in 0..nl {
            let ns = *r.pick(&[1usize, 1, 2, 3, 5, 17]);
            for j in 0..ns {
                if j > 0 {
                    s.push('|');
                }
                id += 1;
                if Some(id) == dup_at && id > 1 {
                    s.push_str(&format!("item {}", r.range(1, id - 1)));
                } else {
                    s.push_str(&format!("item {id}"));
                }
                if long && r.chance(1, 8) {
                    // multi-byte fillers in a third of the long files: chunk boundaries of a
                    // buffering writer then fall inside characters
                    for _ in 0..r.range(20, 300) {
                        s.push(filler);
                    }
                }
            }
            s.push('\n');
        }
        if r.chance(1, 3) {
            s.push('\n');
        }
    }
    s
}

pub fn aisle_file(r: &mut Rng) -> String {
    // a file saved as "UTF-8 with BOM" by an editor
    if r.chance(1, 25) {
        return format!("{}{}", '\u{feff}', aisle_file_plain(r));
    }
    aisle_file_plain(r)
}

fn aisle_file_plain(r: &mut Rng) -> String {
    if r.chance(1, 40) {
        return aisle_large(r);
    }
    match r.below(10) {
        0 => r.pick(AISLE_UNIT_FILES).to_string(),
        1..=3 => aisle_soup(r),
        _ => aisle_structured(r),
    }
}
