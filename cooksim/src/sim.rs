//! Simulator core: the per-process simulation context, the seam function every
//! simulated callback goes through, the schedulers, the tracing subscriber and
//! the faulty byte sink.
//!
//! shuttle runs its "threads" as coroutines on ONE OS thread, so an OS
//! thread-local is process-global state for the simulation. Nothing here holds a
//! `RefCell` borrow across a scheduling point.

use std::cell::RefCell;
use std::collections::BTreeMap;
use std::sync::{Arc, Mutex};

use serde::{Deserialize, Serialize};
use shuttle::scheduler::{Schedule, Scheduler, Task, TaskId};

use crate::rng::{fnv, roll, Rng};

#[derive(Clone, Copy, PartialEq, Eq, Debug, Serialize, Deserialize, PartialOrd, Ord)]
#[serde(rename_all = "lowercase")]
pub enum SeamKind {
    Iter = 0,
    Cb = 1,
    Trace = 2,
    Write = 3,
    Op = 4,
    /// not a seam of its own: marks the nested operation a caller performs from a destructor while
    /// the injected panic of the enclosing operation unwinds (`Fault::Reenter { seam: Unwind, .. }`)
    Unwind = 5,
}

impl SeamKind {
    pub fn name(self) -> &'static str {
        ["iter", "cb", "trace", "write", "op", "unwind"][self as usize]
    }
}

/// What a seam does when the plan says so (besides being a scheduling point)
#[derive(Clone, Debug)]
pub enum SeamAction {
    Panic,
    Reenter(usize), // index into the op's `nested` list
    Stall(u32),     // real sleep, milliseconds
}

#[derive(Clone, Debug)]
pub struct SeamFault {
    pub seam: SeamKind,
    pub n: u32,
    pub action: SeamAction,
}

#[derive(Default)]
pub struct OpCtx {
    pub faults: Vec<SeamFault>,
    pub counts: [u32; 5],
    pub nested_ops: Vec<crate::scenario::Op>,
    /// index into `nested_ops`: performed from a guard's `Drop` while an injected panic unwinds
    pub unwind_op: Option<usize>,
    pub depth: u32,
}

#[derive(Default)]
pub struct TaskCtx {
    pub stack: Vec<OpCtx>,
}

#[derive(Clone, Debug, Serialize, Deserialize)]
pub struct Violation {
    pub class: String,
    pub key: String,
    pub phase: String,
    pub detail: String,
}

pub struct SimCtx {
    pub in_sim: bool,
    pub steps: u64,
    pub max_steps: u64,
    pub log: Option<Vec<String>>,
    pub sched_hash: u64,
    pub obs_hash: u64,
    pub tasks: Vec<TaskCtx>,
    pub active_ops: u32,
    pub overlap: bool,
    pub nested_done: u64,
    pub switches: u64,
    pub last_task: usize,
    pub seam_counts: [u64; 5],
    pub fired: BTreeMap<&'static str, u64>,
    pub violations: Vec<Violation>,
    pub step_cap_hit: bool,
}

impl SimCtx {
    pub fn new() -> Self {
        SimCtx {
            in_sim: false,
            steps: 0,
            // only a guard against a library loop that keeps passing seams; real stalls are the
            // watchdog's business. Long recipes on four threads legitimately pass > 10^6 seams.
            max_steps: 50_000_000,
            log: None,
            sched_hash: 0,
            obs_hash: 0,
            tasks: Vec::new(),
            active_ops: 0,
            overlap: false,
            nested_done: 0,
            switches: 0,
            last_task: usize::MAX,
            seam_counts: [0; 5],
            fired: BTreeMap::new(),
            violations: Vec::new(),
            step_cap_hit: false,
        }
    }
}

thread_local! {
    pub static SIM: RefCell<SimCtx> = RefCell::new(SimCtx::new());
    static LAST_PANIC: RefCell<Option<String>> = const { RefCell::new(None) };
}

// ---------------------------------------------------------------------------
// Baton mode: the same scenario on REAL OS threads, released one at a time at the same
// seams by a seeded scheduler. shuttle's simulated threads share the OS thread's
// `thread_local!`s, which real threads do not; a violation that needs two simulated
// threads is therefore confirmed here (true per-thread TLS) before it is reported.

pub static BATON: std::sync::atomic::AtomicBool = std::sync::atomic::AtomicBool::new(false);
static BATON_SIM: Mutex<Option<SimCtx>> = Mutex::new(None);
static BATON_STATE: Mutex<Option<BatonState>> = Mutex::new(None);
static BATON_CV: std::sync::Condvar = std::sync::Condvar::new();

thread_local! {
    static BATON_TASK: std::cell::Cell<usize> = const { std::cell::Cell::new(0) };
}

pub struct BatonState {
    pub current: usize,
    pub alive: Vec<bool>,
    pub rng: Rng,
    pub stay: u32,
    pub decisions: u64,
    pub deadline: std::time::Instant,
    pub timed_out: bool,
}

pub fn baton_on() -> bool {
    BATON.load(std::sync::atomic::Ordering::SeqCst)
}

pub fn baton_begin(ntasks: usize, seed: u64, stay: u32, limit: std::time::Duration) {
    let mut ctx = SimCtx::new();
    ctx.in_sim = true;
    *BATON_SIM.lock().unwrap_or_else(|e| e.into_inner()) = Some(ctx);
    let mut rng = Rng::new(seed ^ 0xBA70);
    let first = 1 + rng.below(ntasks);
    let mut alive = vec![true; ntasks + 1];
    alive[0] = false; // task 0 is the spawning thread; it never holds the baton
    *BATON_STATE.lock().unwrap_or_else(|e| e.into_inner()) = Some(BatonState {
        current: first,
        alive,
        rng,
        stay,
        decisions: 0,
        deadline: std::time::Instant::now() + limit,
        timed_out: false,
    });
    BATON.store(true, std::sync::atomic::Ordering::SeqCst);
}

pub fn baton_end() -> (SimCtx, bool) {
    BATON.store(false, std::sync::atomic::Ordering::SeqCst);
    let timed_out = BATON_STATE.lock().unwrap_or_else(|e| e.into_inner()).take().map(|s| s.timed_out).unwrap_or(false);
    let ctx = BATON_SIM.lock().unwrap_or_else(|e| e.into_inner()).take().unwrap_or_else(SimCtx::new);
    (ctx, timed_out)
}

pub fn baton_set_task(t: usize) {
    BATON_TASK.with(|c| c.set(t));
}

fn baton_pick_next(st: &mut BatonState, me: usize) {
    let alive: Vec<usize> = (0..st.alive.len()).filter(|&i| st.alive[i]).collect();
    if alive.is_empty() {
        return;
    }
    st.decisions += 1;
    st.current = if st.alive.get(me).copied().unwrap_or(false) && st.stay > 0 && st.rng.chance(st.stay, 100) {
        me
    } else {
        alive[st.rng.below(alive.len())]
    };
}

fn baton_wait_turn(me: usize) {
    let mut g = BATON_STATE.lock().unwrap_or_else(|e| e.into_inner());
    loop {
        let Some(st) = g.as_mut() else { return };
        if st.current == me || st.timed_out {
            return;
        }
        if std::time::Instant::now() > st.deadline {
            st.timed_out = true;
            BATON_CV.notify_all();
            return;
        }
        let (g2, _) = BATON_CV.wait_timeout(g, std::time::Duration::from_millis(50)).unwrap_or_else(|e| e.into_inner());
        g = g2;
    }
}

/// a task thread starts: wait for the baton
pub fn baton_enter(me: usize) {
    baton_set_task(me);
    baton_wait_turn(me);
}

/// scheduling point on a real thread
pub fn baton_yield() {
    let me = BATON_TASK.with(|c| c.get());
    {
        let mut g = BATON_STATE.lock().unwrap_or_else(|e| e.into_inner());
        if let Some(st) = g.as_mut() {
            baton_pick_next(st, me);
        }
        BATON_CV.notify_all();
    }
    baton_wait_turn(me);
}

/// a task thread is done
pub fn baton_exit() {
    let me = BATON_TASK.with(|c| c.get());
    let mut g = BATON_STATE.lock().unwrap_or_else(|e| e.into_inner());
    if let Some(st) = g.as_mut() {
        if me < st.alive.len() {
            st.alive[me] = false;
        }
        baton_pick_next(st, usize::MAX);
    }
    BATON_CV.notify_all();
}

pub fn with<R>(f: impl FnOnce(&mut SimCtx) -> R) -> R {
    if baton_on() {
        let mut g = BATON_SIM.lock().unwrap_or_else(|e| e.into_inner());
        if let Some(c) = g.as_mut() {
            return f(c);
        }
    }
    SIM.with(|s| f(&mut s.borrow_mut()))
}

pub fn in_sim() -> bool {
    with(|s| s.in_sim)
}

pub fn task_id() -> usize {
    if baton_on() {
        return BATON_TASK.with(|c| c.get());
    }
    if in_sim() {
        shuttle::current::me().into()
    } else {
        0
    }
}

pub fn fired(kind: &'static str) {
    with(|s| *s.fired.entry(kind).or_insert(0) += 1);
}

/// Record something the *library* produced (event, callback arguments, bytes,
/// result). Used by the cross-process determinism check to tell library
/// divergence from harness divergence.
pub fn obs(tag: &str, h: u64) {
    with(|s| {
        s.obs_hash = roll(s.obs_hash, h ^ fnv(tag.as_bytes()));
        if let Some(log) = s.log.as_mut() {
            log.push(format!("O {tag} {h:016x}"));
        }
    });
}

pub fn violation(class: &str, key: &str, phase: &str, detail: String) {
    with(|s| {
        if s.violations.len() < 16 {
            s.violations.push(Violation {
                class: class.into(),
                key: key.into(),
                phase: phase.into(),
                detail,
            })
        }
    });
}

pub fn push_op(ctx: OpCtx) {
    let t = task_id();
    with(|s| {
        while s.tasks.len() <= t {
            s.tasks.push(TaskCtx::default());
        }
        if ctx.depth == 0 {
            s.active_ops += 1;
            if s.active_ops >= 2 {
                s.overlap = true;
            }
        }
        s.tasks[t].stack.push(ctx);
    });
}

pub fn pop_op() -> Option<OpCtx> {
    let t = task_id();
    with(|s| {
        let c = s.tasks.get_mut(t).and_then(|tc| tc.stack.pop());
        if let Some(c) = &c {
            if c.depth == 0 {
                s.active_ops = s.active_ops.saturating_sub(1);
            }
        }
        c
    })
}

pub const INJECTED: &str = "cooksim-injected-fault";

/// Every simulated callback goes through here: count, log, scheduling point,
/// then the planned fault (if any) for this (seam kind, occurrence) of the
/// current operation of the current task.
pub fn seam(kind: SeamKind) {
    // never yield while this OS thread is unwinding: simulated tasks are coroutines on ONE OS
    // thread, `std::thread::panicking()` is per OS thread, so a task switched in while another
    // one is in the middle of an unwind would see `panicking() == true` - and every std lock
    // guard it drops would poison its lock, which no real thread could observe.
    if !in_sim() || std::thread::panicking() {
        return;
    }
    let t = task_id();
    let action = with(|s| {
        s.steps += 1;
        s.seam_counts[kind as usize] += 1;
        if s.steps > s.max_steps {
            s.step_cap_hit = true;
        }
        s.sched_hash = roll(s.sched_hash, ((t as u64) << 8) | kind as u64);
        if s.last_task != t {
            s.switches += 1;
            s.last_task = t;
        }
        if let Some(log) = s.log.as_mut() {
            log.push(format!("S {t} {}", kind.name()));
        }
        let top = s.tasks.get_mut(t).and_then(|tc| tc.stack.last_mut())?;
        let n = top.counts[kind as usize];
        top.counts[kind as usize] += 1;
        let depth = top.depth;
        top.faults
            .iter()
            .find(|f| f.seam == kind && f.n == n)
            .map(|f| (f.action.clone(), depth))
    });
    if baton_on() {
        baton_yield();
    } else {
        shuttle::thread::sleep(std::time::Duration::ZERO);
    }
    match action {
        // shadow build: shuttle treats any unwinding as the end of the test (a primitive released
        // while `panicking()` is closed for good), so panics are not injected there - the normal
        // build covers them
        Some((SeamAction::Panic, _)) if cfg!(feature = "shadow") => {
            fired("panic_not_injected_in_shadow_build");
        }
        Some((SeamAction::Panic, depth)) => {
            fired(match kind {
                SeamKind::Iter => "iter_panic",
                SeamKind::Cb => "cb_panic",
                _ => "seam_panic",
            });
            // a caller whose destructor uses the parser again while this panic unwinds (an editor
            // buffer that re-validates in `Drop`, a `defer!`): the operation must return what it
            // returns at any other time, although `std::thread::panicking()` is true meanwhile
            struct DuringUnwind(Option<crate::scenario::Op>);
            impl Drop for DuringUnwind {
                fn drop(&mut self) {
                    if let Some(op) = self.0.take() {
                        fired("op_during_unwind");
                        crate::c18::run_nested(&op);
                        with(|s| s.nested_done += 1);
                    }
                }
            }
            let _guard = DuringUnwind(if depth == 0 {
                with(|s| s.tasks[t].stack.last().and_then(|c| c.unwind_op.and_then(|i| c.nested_ops.get(i).cloned())))
            } else {
                None
            });
            panic!("{INJECTED}");
        }
        Some((SeamAction::Stall(ms), _)) => {
            fired("stall");
            // simulated time: the caller's delay is an advance of the clock; without the clock
            // seam (shim not loaded) it is a real sleep
            if crate::clock::available() {
                crate::clock::advance_ms(ms as u64);
            } else {
                std::thread::sleep(std::time::Duration::from_millis(ms as u64));
            }
        }
        Some((SeamAction::Reenter(i), depth)) => {
            if depth == 0 {
                let op = with(|s| {
                    s.tasks[t]
                        .stack
                        .last()
                        .and_then(|c| c.nested_ops.get(i).cloned())
                });
                if let Some(op) = op {
                    fired("reenter");
                    crate::c18::run_nested(&op);
                    with(|s| s.nested_done += 1);
                }
            }
        }
        None => {}
    }
}

// ---------------------------------------------------------------------------
// panic capture

pub fn install_silent_panic_hook() {
    std::panic::set_hook(Box::new(|info| {
        let msg = if let Some(s) = info.payload().downcast_ref::<&str>() {
            s.to_string()
        } else if let Some(s) = info.payload().downcast_ref::<String>() {
            s.clone()
        } else {
            "<non-string panic>".to_string()
        };
        let loc = info
            .location()
            .map(|l| format!("{}:{}", l.file(), l.line()))
            .unwrap_or_default();
        // debugging aid: COOKSIM_PANIC_TRACE=1 prints every panic (injected ones included) with a backtrace
        if std::env::var_os("COOKSIM_PANIC_TRACE").is_some() && !msg.contains(INJECTED) {
            eprintln!("PANIC {msg} @ {loc}\n{}", std::backtrace::Backtrace::force_capture());
        }
        PANIC_SEEN.store(true, std::sync::atomic::Ordering::SeqCst);
        LAST_PANIC.with(|p| *p.borrow_mut() = Some(format!("{msg} @ {loc}")));
    }));
}

/// Set by every panic in this process. The shadow build must not trust anything that happens in
/// the process after a panic unwound inside the simulation: shuttle closes a primitive that is
/// released while `std::thread::panicking()` (its model of "the test is over"), and a closed lock
/// excludes nobody afterwards. The worker discards the run and continues in a fresh process.
pub static PANIC_SEEN: std::sync::atomic::AtomicBool = std::sync::atomic::AtomicBool::new(false);

pub fn panic_seen() -> bool {
    PANIC_SEEN.load(std::sync::atomic::Ordering::SeqCst)
}

pub fn take_last_panic() -> Option<String> {
    LAST_PANIC.with(|p| p.borrow_mut().take())
}

// ---------------------------------------------------------------------------
// schedulers

#[derive(Clone, Debug, Serialize, Deserialize, PartialEq)]
#[serde(tag = "kind", rename_all = "lowercase")]
pub enum SchedSpec {
    /// uniformly random runnable task; with probability `stay`% keep the current one
    Random { seed: u64, stay: u8 },
    /// PCT: random priorities, `depth - 1` priority change points in `0..est` steps
    Pct { seed: u64, depth: u8, est: u32 },
    /// explicit list of task choices (replay / minimisation); a choice that is
    /// not runnable falls back to the current task, then to the lowest id
    List { choices: Vec<u16> },
}

pub struct SimScheduler {
    spec: SchedSpec,
    rng: Rng,
    started: bool,
    step: u64,
    prio: Vec<u64>,
    change_points: Vec<u64>,
    pub record: Arc<Mutex<Vec<u16>>>,
}

impl SimScheduler {
    pub fn new(spec: SchedSpec) -> Self {
        let seed = match &spec {
            SchedSpec::Random { seed, .. } | SchedSpec::Pct { seed, .. } => *seed,
            SchedSpec::List { .. } => 0,
        };
        let mut rng = Rng::new(seed ^ 0x5C4E_D000);
        let mut change_points = Vec::new();
        if let SchedSpec::Pct { depth, est, .. } = &spec {
            for _ in 1..*depth {
                change_points.push(rng.below((*est).max(1) as usize) as u64);
            }
        }
        SimScheduler {
            spec,
            rng,
            started: false,
            step: 0,
            prio: Vec::new(),
            change_points,
            record: Arc::new(Mutex::new(Vec::new())),
        }
    }
}

impl Scheduler for SimScheduler {
    fn new_execution(&mut self) -> Option<Schedule> {
        if self.started {
            None
        } else {
            self.started = true;
            Some(Schedule::new(0))
        }
    }

    fn next_task(
        &mut self,
        runnable: &[&Task],
        current: Option<TaskId>,
        _is_yielding: bool,
    ) -> Option<TaskId> {
        let ids: Vec<usize> = runnable.iter().map(|t| t.id().into()).collect();
        let cur: Option<usize> = current.map(|c| c.into());
        let cur_runnable = cur.filter(|c| ids.contains(c));
        let chosen = match &self.spec {
            SchedSpec::Random { stay, .. } => {
                let stay = *stay as u32;
                match cur_runnable {
                    Some(c) if stay > 0 && self.rng.chance(stay, 100) => c,
                    _ => ids[self.rng.below(ids.len())],
                }
            }
            SchedSpec::Pct { depth, .. } => {
                let d = *depth as u64;
                for &i in &ids {
                    while self.prio.len() <= i {
                        // high band: always above the change-point band 0..d
                        let p = d + 1 + (self.rng.next_u64() >> 8);
                        self.prio.push(p);
                    }
                }
                if let Some(pos) = self.change_points.iter().position(|&c| c == self.step) {
                    if let Some(c) = cur {
                        if c < self.prio.len() {
                            self.prio[c] = d - 1 - (pos as u64).min(d - 1);
                        }
                    }
                }
                *ids.iter().max_by_key(|&&i| (self.prio[i], usize::MAX - i)).unwrap()
            }
            SchedSpec::List { choices } => {
                let want = choices.get(self.step as usize).map(|&c| c as usize);
                match want {
                    Some(w) if ids.contains(&w) => w,
                    _ => cur_runnable.unwrap_or_else(|| *ids.iter().min().unwrap()),
                }
            }
        };
        self.step += 1;
        self.record.lock().unwrap().push(chosen as u16);
        Some(TaskId::from(chosen))
    }

    fn next_u64(&mut self) -> u64 {
        self.rng.next_u64()
    }
}

// ---------------------------------------------------------------------------
// tracing subscriber seam

pub struct SeamSubscriber;

/// Whether the subscriber is interested in the library's spans and events at all. Results
/// must not depend on it (whether anyone listens to `tracing` is ambient state, not input).
pub static TRACE_ON: std::sync::atomic::AtomicBool = std::sync::atomic::AtomicBool::new(true);

pub fn set_trace(on: bool) {
    TRACE_ON.store(on, std::sync::atomic::Ordering::SeqCst);
    tracing_core::callsite::rebuild_interest_cache();
}

impl tracing_core::Subscriber for SeamSubscriber {
    fn enabled(&self, meta: &tracing_core::Metadata<'_>) -> bool {
        TRACE_ON.load(std::sync::atomic::Ordering::Relaxed) && meta.target().starts_with("cooklang")
    }

    fn register_callsite(&self, meta: &'static tracing_core::Metadata<'static>) -> tracing_core::subscriber::Interest {
        // "sometimes": ask `enabled` every time, so that switching takes effect immediately
        if meta.target().starts_with("cooklang") {
            tracing_core::subscriber::Interest::sometimes()
        } else {
            tracing_core::subscriber::Interest::never()
        }
    }

    fn max_level_hint(&self) -> Option<tracing_core::LevelFilter> {
        Some(tracing_core::LevelFilter::TRACE)
    }

    fn new_span(&self, attrs: &tracing_core::span::Attributes<'_>) -> tracing_core::span::Id {
        if in_sim() {
            obs("span", fnv(attrs.metadata().name().as_bytes()));
            seam(SeamKind::Trace);
        }
        tracing_core::span::Id::from_u64(1)
    }

    fn record(&self, _: &tracing_core::span::Id, _: &tracing_core::span::Record<'_>) {}

    fn record_follows_from(&self, _: &tracing_core::span::Id, _: &tracing_core::span::Id) {}

    fn event(&self, ev: &tracing_core::Event<'_>) {
        if in_sim() {
            obs("event", fnv(ev.metadata().name().as_bytes()));
            seam(SeamKind::Trace);
        }
    }

    fn enter(&self, _: &tracing_core::span::Id) {
        seam(SeamKind::Trace);
    }

    fn exit(&self, _: &tracing_core::span::Id) {
        // no fault may be raised while a span guard is being dropped during an
        // unwind: a second panic would abort. Scheduling point only.
        if in_sim() && !std::thread::panicking() {
            seam(SeamKind::Trace);
        }
    }
}

pub fn install_subscriber() {
    let _ = tracing_core::dispatcher::set_global_default(tracing_core::Dispatch::new(
        SeamSubscriber,
    ));
}

// ---------------------------------------------------------------------------
// faulty byte sink

#[derive(Clone, Debug, Serialize, Deserialize, PartialEq)]
#[serde(tag = "kind", rename_all = "lowercase")]
pub enum WriteFault {
    /// accept only `n` bytes (at least 1) of this call
    Short { call: u32, n: u32 },
    /// `ErrorKind::Interrupted` once at this call, nothing accepted
    Eintr { call: u32 },
    /// `ErrorKind::WouldBlock`: hard for `write_all`
    WouldBlock { call: u32 },
    /// a hard error of the given kind
    IoErr { call: u32, errkind: String },
    /// `Ok(0)`: `write_all` must turn it into `WriteZero`
    Zero { call: u32 },
    /// the sink PANICS at this call (a caller's `Write` impl with a bug, or one that is meant to
    /// unwind - a cancellation); the simulated caller catches it and goes on using the library.
    /// Whatever the writer held at that moment (a lock, a scratch buffer) is its to clean up.
    /// (Shadow build: a hard error instead - no panics are injected there.)
    Panic { call: u32 },
    /// the `flush`-th call of `flush` returns `ErrorKind::Interrupted` (nothing is lost: the sink
    /// keeps what it accepted). A writer may retry or give the error back.
    FlushEintr { flush: u32 },
    /// the `flush`-th call of `flush` fails for good
    FlushErr { flush: u32, errkind: String },
    /// not a fault but a sink mode: the sink implements `write_vectored` itself - all slices are
    /// offered as one write, so a short write may end inside any of them (std's default
    /// implementation only ever offers the first non-empty slice)
    Vectored,
}

impl WriteFault {
    pub fn call(&self) -> u32 {
        match self {
            WriteFault::Short { call, .. }
            | WriteFault::Eintr { call }
            | WriteFault::WouldBlock { call }
            | WriteFault::IoErr { call, .. }
            | WriteFault::Panic { call }
            | WriteFault::Zero { call } => *call,
            // flush faults index flush calls, the sink mode indexes nothing
            WriteFault::FlushEintr { .. } | WriteFault::FlushErr { .. } | WriteFault::Vectored => u32::MAX,
        }
    }
    pub fn is_hard(&self) -> bool {
        !matches!(self, WriteFault::Short { .. } | WriteFault::Eintr { .. } | WriteFault::FlushEintr { .. } | WriteFault::Vectored)
    }
    pub fn tag(&self) -> &'static str {
        match self {
            WriteFault::Short { .. } => "short",
            WriteFault::Eintr { .. } => "eintr",
            WriteFault::WouldBlock { .. } => "wouldblock",
            WriteFault::IoErr { .. } => "io_err",
            WriteFault::Zero { .. } => "zero",
            WriteFault::Panic { .. } => "sink_panic",
            WriteFault::FlushEintr { .. } => "flush_eintr",
            WriteFault::FlushErr { .. } => "flush_err",
            WriteFault::Vectored => "vectored_sink",
        }
    }
}

pub fn errkind(name: &str) -> std::io::ErrorKind {
    use std::io::ErrorKind::*;
    match name {
        "StorageFull" => StorageFull,
        "BrokenPipe" => BrokenPipe,
        "PermissionDenied" => PermissionDenied,
        "ConnectionReset" => ConnectionReset,
        "TimedOut" => TimedOut,
        "QuotaExceeded" => QuotaExceeded,
        _ => Other,
    }
}

/// Byte sink owned by the simulator. Per `write` call the plan says what happens.
/// Records accepted bytes, call boundaries and any call made after an error was
/// returned (other than `Interrupted`, which callers are expected to retry).
pub struct FaultyWriter {
    pub plan: Vec<WriteFault>,
    pub calls: u32,
    pub accepted: Vec<u8>,
    pub hard_error_at: Option<u32>,
    pub hard_error_kind: Option<std::io::ErrorKind>,
    pub calls_after_error: u32,
    pub flushes: u32,
    /// a flush returned `Interrupted` (the writer may legitimately hand that error back)
    pub flush_interrupted: bool,
    pub vectored_calls: u32,
    pub fired_tags: Vec<&'static str>,
    pub yield_points: bool,
}

impl FaultyWriter {
    pub fn new(plan: Vec<WriteFault>, yield_points: bool) -> Self {
        FaultyWriter {
            plan,
            calls: 0,
            accepted: Vec::new(),
            hard_error_at: None,
            hard_error_kind: None,
            calls_after_error: 0,
            flushes: 0,
            flush_interrupted: false,
            vectored_calls: 0,
            fired_tags: Vec::new(),
            yield_points,
        }
    }
}

impl std::io::Write for FaultyWriter {
    fn write(&mut self, buf: &[u8]) -> std::io::Result<usize> {
        let call = self.calls;
        self.calls += 1;
        if self.yield_points {
            obs("write", fnv(buf));
            seam(SeamKind::Write);
        }
        if self.hard_error_at.is_some() {
            self.calls_after_error += 1;
        }
        // several faults may be planned for one call (e.g. eintr then short):
        // eintr entries are consumed one per attempt, the call counter still advances
        // per attempt, so plans index *attempts*.
        let f = self.plan.iter().find(|f| f.call() == call).cloned();
        match f {
            None => {
                self.accepted.extend_from_slice(buf);
                Ok(buf.len())
            }
            Some(f) => {
                if !buf.is_empty() {
                    self.fired_tags.push(f.tag());
                }
                match f {
                    WriteFault::Short { n, .. } => {
                        let n = (n as usize).clamp(1, buf.len().max(1)).min(buf.len());
                        self.accepted.extend_from_slice(&buf[..n]);
                        Ok(n)
                    }
                    WriteFault::Eintr { .. } => Err(std::io::ErrorKind::Interrupted.into()),
                    WriteFault::WouldBlock { .. } => {
                        self.hard_error_at.get_or_insert(call);
                        self.hard_error_kind.get_or_insert(std::io::ErrorKind::WouldBlock);
                        Err(std::io::ErrorKind::WouldBlock.into())
                    }
                    WriteFault::IoErr { errkind: k, .. } => {
                        self.hard_error_at.get_or_insert(call);
                        self.hard_error_kind.get_or_insert(errkind(&k));
                        Err(errkind(&k).into())
                    }
                    WriteFault::Panic { .. } => {
                        self.hard_error_at.get_or_insert(call);
                        self.hard_error_kind.get_or_insert(std::io::ErrorKind::Other);
                        if cfg!(feature = "shadow") || std::thread::panicking() {
                            return Err(std::io::ErrorKind::Other.into());
                        }
                        panic!("{INJECTED}");
                    }
                    WriteFault::Zero { .. } => {
                        if buf.is_empty() {
                            return Ok(0);
                        }
                        self.hard_error_at.get_or_insert(call);
                        self.hard_error_kind.get_or_insert(std::io::ErrorKind::WriteZero);
                        Ok(0)
                    }
                    // never selected by `call()`
                    WriteFault::FlushEintr { .. } | WriteFault::FlushErr { .. } | WriteFault::Vectored => unreachable!(),
                }
            }
        }
    }

    fn write_vectored(&mut self, bufs: &[std::io::IoSlice<'_>]) -> std::io::Result<usize> {
        if self.plan.iter().any(|f| matches!(f, WriteFault::Vectored)) {
            self.vectored_calls += 1;
            if self.vectored_calls == 1 {
                self.fired_tags.push("vectored_sink");
            }
            let all: Vec<u8> = bufs.iter().flat_map(|b| b.iter().copied()).collect();
            self.write(&all)
        } else {
            // std's default: the first non-empty slice only
            let buf = bufs.iter().find(|b| !b.is_empty()).map_or(&[][..], |b| &**b);
            self.write(buf)
        }
    }

    fn flush(&mut self) -> std::io::Result<()> {
        let idx = self.flushes;
        self.flushes += 1;
        let f = self.plan.iter().find(|f| matches!(f, WriteFault::FlushEintr { flush } | WriteFault::FlushErr { flush, .. } if *flush == idx)).cloned();
        match f {
            Some(WriteFault::FlushEintr { .. }) => {
                self.fired_tags.push("flush_eintr");
                self.flush_interrupted = true;
                Err(std::io::ErrorKind::Interrupted.into())
            }
            Some(WriteFault::FlushErr { errkind: k, .. }) => {
                self.fired_tags.push("flush_err");
                self.hard_error_at.get_or_insert(self.calls);
                self.hard_error_kind.get_or_insert(errkind(&k));
                Err(errkind(&k).into())
            }
            _ => Ok(()),
        }
    }
}
