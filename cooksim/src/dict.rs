//! Source-derived dictionaries (the fuzzers' "auto dictionary" idea): character and short string
//! literals found in the library's own source are offered to the input generators as tokens. A
//! change that gives meaning to a new character (a bracket from another script, a new separator, a
//! unit alias with a period) brings that character into the source, and from there into the
//! workload, without anyone having to guess it.

use std::sync::OnceLock;

#[derive(Default, Debug)]
pub struct Dict {
    /// literals of src/aisle.rs
    pub aisle: Vec<String>,
    /// literals of the lexer, the parser, the analysis and metadata code
    pub recipe: Vec<String>,
    /// unit names, symbols and aliases of units.toml
    pub units: Vec<String>,
    /// string literals anywhere under src/ that look like names of environment variables
    /// (`[A-Z][A-Z0-9_]{2,}`), plus the usual ambient ones: whether they are set is not input
    pub env: Vec<String>,
    /// lower-case word literals of src/metadata.rs: the metadata keys the library knows about
    /// (a change that teaches it a new key writes that key into the source)
    pub meta_keys: Vec<String>,
}

static DICT: OnceLock<Dict> = OnceLock::new();

pub fn get() -> &'static Dict {
    DICT.get_or_init(Dict::default)
}

pub fn load(repo: &str) {
    let _ = DICT.set(build(repo));
}

fn unescape(body: &str) -> Option<String> {
    let mut out = String::new();
    let mut it = body.chars().peekable();
    while let Some(c) = it.next() {
        if c != '\\' {
            out.push(c);
            continue;
        }
        match it.next()? {
            'n' => out.push('\n'),
            'r' => out.push('\r'),
            't' => out.push('\t'),
            '0' => out.push('\0'),
            '\\' => out.push('\\'),
            '\'' => out.push('\''),
            '"' => out.push('"'),
            'u' => {
                if it.next()? != '{' {
                    return None;
                }
                let mut hex = String::new();
                for h in it.by_ref() {
                    if h == '}' {
                        break;
                    }
                    hex.push(h);
                }
                out.push(char::from_u32(u32::from_str_radix(hex.trim_matches('_'), 16).ok()?)?);
            }
            'x' => {
                let a = it.next()?;
                let b = it.next()?;
                out.push(char::from_u32(u32::from_str_radix(&format!("{a}{b}"), 16).ok()?)?);
            }
            _ => return None,
        }
    }
    Some(out)
}

/// char literals and string literals of at most `max_chars` characters (format strings with
/// `{` and plain identifiers-like words longer than 3 are left out)
pub fn literals(src: &str, max_chars: usize) -> Vec<String> {
    let mut out: Vec<String> = Vec::new();
    let b: Vec<char> = src.chars().collect();
    let mut i = 0;
    while i < b.len() {
        // skip line comments
        if b[i] == '/' && i + 1 < b.len() && b[i + 1] == '/' {
            while i < b.len() && b[i] != '\n' {
                i += 1;
            }
            continue;
        }
        if b[i] == '"' {
            let mut j = i + 1;
            let mut body = String::new();
            while j < b.len() && b[j] != '"' {
                if b[j] == '\\' && j + 1 < b.len() {
                    body.push(b[j]);
                    j += 1;
                }
                body.push(b[j]);
                j += 1;
            }
            if let Some(s) = unescape(&body) {
                let n = s.chars().count();
                let wordy = s.chars().all(|c| c.is_ascii_alphanumeric() || c == '_' || c == ' ');
                if n >= 1 && n <= max_chars && !s.contains('{') && !(wordy && n > 3) {
                    out.push(s);
                }
            }
            i = j + 1;
            continue;
        }
        if b[i] == '\'' {
            // a char literal closes within a few characters; a lifetime does not
            let mut j = i + 1;
            let mut body = String::new();
            while j < b.len() && j < i + 12 && b[j] != '\'' {
                if b[j] == '\\' && j + 1 < b.len() {
                    body.push(b[j]);
                    j += 1;
                }
                body.push(b[j]);
                j += 1;
            }
            if j < b.len() && b[j] == '\'' && !body.is_empty() {
                if let Some(s) = unescape(&body) {
                    if s.chars().count() == 1 {
                        out.push(s);
                        i = j + 1;
                        continue;
                    }
                }
            }
        }
        i += 1;
    }
    out.sort();
    out.dedup();
    out
}

fn read_all(paths: &[String]) -> String {
    let mut s = String::new();
    for p in paths {
        if let Ok(t) = std::fs::read_to_string(p) {
            s.push_str(&t);
            s.push('\n');
        }
    }
    s
}

fn rs_files(dir: &str) -> Vec<String> {
    let mut v = Vec::new();
    if let Ok(rd) = std::fs::read_dir(dir) {
        let mut names: Vec<_> = rd.flatten().map(|e| e.path()).collect();
        names.sort();
        for p in names {
            if p.extension().map(|e| e == "rs").unwrap_or(false) {
                v.push(p.to_string_lossy().into_owned());
            }
        }
    }
    v
}

pub fn build(repo: &str) -> Dict {
    let aisle = literals(&read_all(&[format!("{repo}/src/aisle.rs")]), 4);
    let mut files = rs_files(&format!("{repo}/src/lexer"));
    files.extend(rs_files(&format!("{repo}/src/parser")));
    files.extend(rs_files(&format!("{repo}/src/analysis")));
    files.push(format!("{repo}/src/metadata.rs"));
    files.push(format!("{repo}/src/quantity.rs"));
    files.push(format!("{repo}/src/text.rs"));
    let recipe = literals(&read_all(&files), 6);
    // units.toml: every quoted string of at most 12 characters (names, symbols, aliases)
    let mut units = Vec::new();
    if let Ok(t) = std::fs::read_to_string(format!("{repo}/units.toml")) {
        let mut it = t.split('"');
        it.next();
        while let (Some(s), Some(_)) = (it.next(), it.next()) {
            if !s.is_empty() && s.chars().count() <= 12 && !s.contains('\n') {
                units.push(s.to_string());
            }
        }
    }
    units.sort();
    units.dedup();
    let mut env: Vec<String> = ["NO_COLOR", "CLICOLOR", "CLICOLOR_FORCE", "TERM", "COLORTERM", "LANG", "LC_ALL", "LC_NUMERIC", "TZ", "COLUMNS", "RUST_LOG", "RUST_BACKTRACE", "COOKLANG_DEBUG"].iter().map(|s| s.to_string()).collect();
    let mut stack = vec![format!("{repo}/src")];
    let mut all = Vec::new();
    while let Some(d) = stack.pop() {
        if let Ok(rd) = std::fs::read_dir(&d) {
            for e in rd.flatten() {
                let p = e.path();
                if p.is_dir() {
                    stack.push(p.to_string_lossy().into_owned());
                } else if p.extension().map(|x| x == "rs").unwrap_or(false) && p.file_name().map(|n| n != "verif_seam.rs").unwrap_or(true) {
                    all.push(p.to_string_lossy().into_owned());
                }
            }
        }
    }
    all.sort();
    for f in all {
        if let Ok(t) = std::fs::read_to_string(&f) {
            let mut it = t.split('"');
            it.next();
            while let (Some(lit), Some(_)) = (it.next(), it.next()) {
                let ok = lit.len() >= 3 && lit.len() <= 48 && lit.starts_with(|c: char| c.is_ascii_uppercase()) && lit.chars().all(|c| c.is_ascii_uppercase() || c.is_ascii_digit() || c == '_') && (lit.contains('_') || lit.len() >= 6);
                if ok && env.len() < 64 {
                    env.push(lit.to_string());
                }
            }
        }
    }
    env.sort();
    env.dedup();
    let mut meta_keys: Vec<String> = Vec::new();
    if let Ok(t) = std::fs::read_to_string(format!("{repo}/src/metadata.rs")) {
        // (test modules excluded: what follows `#[cfg(test)]` is not the library)
        let t = t.split("#[cfg(test)]").next().unwrap_or("");
        let mut it = t.split('"');
        it.next();
        while let (Some(lit), Some(_)) = (it.next(), it.next()) {
            let ok = lit.len() >= 3 && lit.len() <= 24 && lit.starts_with(|c: char| c.is_ascii_lowercase()) && lit.chars().all(|c| c.is_ascii_lowercase() || c == ' ' || c == '_' || c == '-') && !lit.ends_with(' ');
            if ok && meta_keys.len() < 64 {
                meta_keys.push(lit.to_string());
            }
        }
    }
    meta_keys.sort();
    meta_keys.dedup();
    Dict { aisle, recipe, units, env, meta_keys }
}
