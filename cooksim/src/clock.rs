//! The clock seam: control surface of /verif/simclock (an LD_PRELOADed shim that interposes
//! libc's clock reads and sleeps). When the shim is not loaded every function here is a no-op and
//! the process sees the real clock (a replay outside check.py, Miri).
//!
//! Simulated time is discrete: "now" advances by `step` per clock read and by the duration of
//! every sleep (which returns at once). The library has no clock, so on the unchanged tree the
//! read counter stays at zero; a change that consults the clock (a time budget, a date default,
//! an expiring cache) sees whatever date, speed and jumps the scenario prescribes, and replays
//! exactly.

use std::ffi::{c_char, c_void};
use std::sync::OnceLock;

extern "C" {
    fn dlsym(handle: *mut c_void, symbol: *const c_char) -> *mut c_void;
}

struct Shim {
    ctl: unsafe extern "C" fn(i32, i64, i64, i64),
    mode: unsafe extern "C" fn(i32),
    advance: unsafe extern "C" fn(i64),
    set_wall: unsafe extern "C" fn(i64, i64),
    reads: unsafe extern "C" fn() -> u64,
    sleeps: unsafe extern "C" fn() -> u64,
    now_mono: unsafe extern "C" fn() -> i64,
}

static SHIM: OnceLock<Option<Shim>> = OnceLock::new();

fn shim() -> Option<&'static Shim> {
    SHIM.get_or_init(|| unsafe {
        let look = |name: &[u8]| dlsym(std::ptr::null_mut(), name.as_ptr() as *const c_char);
        let g = look(b"simclock_now_mono\0");
        if g.is_null() {
            return None;
        }
        let (a, b, c, d, e, f) = (
            look(b"simclock_ctl\0"),
            look(b"simclock_mode\0"),
            look(b"simclock_advance\0"),
            look(b"simclock_set_wall\0"),
            look(b"simclock_reads\0"),
            look(b"simclock_sleeps\0"),
        );
        if a.is_null() || b.is_null() || c.is_null() || d.is_null() || e.is_null() || f.is_null() {
            return None;
        }
        Some(Shim {
            ctl: std::mem::transmute(a),
            mode: std::mem::transmute(b),
            advance: std::mem::transmute(c),
            set_wall: std::mem::transmute(d),
            reads: std::mem::transmute(e),
            sleeps: std::mem::transmute(f),
            now_mono: std::mem::transmute(g),
        })
    })
    .as_ref()
}

pub fn available() -> bool {
    shim().is_some()
}

/// 2026-01-15T10:00:00Z, a Thursday
pub const EPOCH_A: i64 = 1_768_471_200;

#[derive(Clone, Debug, PartialEq, serde::Serialize, serde::Deserialize)]
pub struct ClockSpec {
    /// wall clock at the moment the setting takes effect (seconds since the Unix epoch)
    pub wall_s: i64,
    /// every clock read advances simulated time by this much
    pub step_us: u64,
}

impl ClockSpec {
    pub fn base() -> ClockSpec {
        ClockSpec { wall_s: EPOCH_A, step_us: 1 }
    }
}

/// Enter simulated time: monotonic clock restarts at one hour of uptime, wall clock at `wall_s`.
pub fn set(spec: &ClockSpec) {
    if let Some(s) = shim() {
        unsafe { (s.ctl)(1, 3_600_000_000_000, spec.wall_s.saturating_mul(1_000_000_000), (spec.step_us as i64).saturating_mul(1000)) }
    }
}

/// A jump of the wall clock and a new speed of time; the monotonic clock keeps running (it must
/// never go backwards).
pub fn jump(spec: &ClockSpec) {
    if let Some(s) = shim() {
        unsafe { (s.set_wall)(spec.wall_s.saturating_mul(1_000_000_000), (spec.step_us as i64).saturating_mul(1000)) }
    }
}

/// Back to the real clock (real threads, condition variables with time-outs)
pub fn passthrough() {
    if let Some(s) = shim() {
        unsafe { (s.mode)(0) }
    }
}

pub fn resume() {
    if let Some(s) = shim() {
        unsafe { (s.mode)(1) }
    }
}

pub fn advance_ms(ms: u64) {
    if let Some(s) = shim() {
        unsafe { (s.advance)((ms as i64).saturating_mul(1_000_000)) }
    }
}

/// clock reads / sleeps made by this process while time was simulated
pub fn reads() -> u64 {
    shim().map(|s| unsafe { (s.reads)() }).unwrap_or(0)
}

pub fn sleeps() -> u64 {
    shim().map(|s| unsafe { (s.sleeps)() }).unwrap_or(0)
}

/// simulated monotonic "now" in nanoseconds (0 without the shim)
pub fn now_ns() -> i64 {
    shim().map(|s| unsafe { (s.now_mono)() }).unwrap_or(0)
}
