//! Delta-debugging minimiser for replay files. A candidate is kept only if the
//! *same violation class* is still observed. For C18 a change of scenario shape
//! invalidates the schedule, so every candidate is re-searched: first the old
//! choice list (its fallback rule makes it robust to small changes), then a
//! bounded number of fresh seeded schedules; among failing schedules the one
//! with the fewest context switches is kept.

use crate::c11::{self, AisleOp, AisleScenario};
use crate::c18;
use crate::scenario::*;
use crate::sim::{SchedSpec, Violation};
use crate::{die, Args, ReplayFile};

struct Budget {
    execs: u64,
    max: u64,
}

/// Shadow build: after a panic unwound inside the simulation nothing in this process can be
/// trusted any more (see sim::PANIC_SEEN); the candidate is rejected and minimisation ends with
/// the best scenario found so far.
fn tainted(b: &mut Budget) -> bool {
    if cfg!(feature = "shadow") && crate::sim::panic_seen() {
        b.execs = b.max;
        return true;
    }
    false
}

fn switches(choices: &[u16]) -> usize {
    choices.windows(2).filter(|w| w[0] != w[1]).count()
}

/// Does `sc` still violate with class `class`? Returns the failing schedule (as
/// an explicit choice list) with the fewest context switches found.
fn fails(sc: &Scenario, class: &str, old: &[u16], search: u64, b: &mut Budget) -> Option<(Vec<u16>, Vec<Violation>)> {
    if b.execs >= b.max {
        return None;
    }
    let rp = c18::reference_phase(sc);
    if tainted(b) {
        return None;
    }
    if rp.violations.iter().any(|v| v.class == class) {
        return Some((vec![], rp.violations.clone()));
    }
    let mut best: Option<(Vec<u16>, Vec<Violation>)> = None;
    let mut cands: Vec<SchedSpec> = vec![SchedSpec::List { choices: old.to_vec() }];
    for s in 0..search {
        cands.push(match s % 3 {
            0 => SchedSpec::Random { seed: s, stay: 0 },
            1 => SchedSpec::Random { seed: s, stay: 90 },
            _ => SchedSpec::Pct { seed: s, depth: 3, est: (old.len() as u32).max(8) },
        });
    }
    for (i, c) in cands.iter().enumerate() {
        if b.execs >= b.max {
            break;
        }
        b.execs += 1;
        let (v, st) = c18::execute(&rp, c, false);
        if tainted(b) {
            return best;
        }
        if v.iter().any(|x| x.class == class) {
            let better = match &best {
                None => true,
                Some((ch, _)) => switches(&st.choices) < switches(ch),
            };
            if better {
                best = Some((st.choices.clone(), v));
            }
            if i == 0 {
                break; // the old schedule still works: good enough for a shape step
            }
        }
    }
    best
}

fn used_remap(sc: &mut Scenario) {
    // drop parsers / inputs no operation refers to
    let mut pu = vec![false; sc.parsers.len()];
    let mut iu = vec![false; sc.inputs.len()];
    for op in sc.all_ops() {
        pu[op.parser] = true;
        iu[op.input] = true;
    }
    let pmap: Vec<usize> = pu.iter().scan(0, |n, &u| { let r = *n; if u { *n += 1; } Some(r) }).collect();
    let imap: Vec<usize> = iu.iter().scan(0, |n, &u| { let r = *n; if u { *n += 1; } Some(r) }).collect();
    fn fix(op: &mut Op, pmap: &[usize], imap: &[usize]) {
        op.parser = pmap[op.parser];
        op.input = imap[op.input];
        for f in &mut op.faults {
            if let Fault::Reenter { op, .. } = f {
                fix(op, pmap, imap);
            }
        }
    }
    for t in &mut sc.threads {
        for op in t {
            fix(op, &pmap, &imap);
        }
    }
    sc.parsers = sc.parsers.iter().zip(&pu).filter(|(_, u)| **u).map(|(p, _)| p.clone()).collect();
    sc.inputs = sc.inputs.iter().zip(&iu).filter(|(_, u)| **u).map(|(p, _)| p.clone()).collect();
}

fn shape_candidates(sc: &Scenario) -> Vec<Scenario> {
    let mut v = Vec::new();
    // drop a thread
    if sc.threads.len() > 1 {
        for t in 0..sc.threads.len() {
            let mut c = sc.clone();
            c.threads.remove(t);
            v.push(c);
        }
    }
    // drop an op
    for t in 0..sc.threads.len() {
        for o in 0..sc.threads[t].len() {
            let mut c = sc.clone();
            c.threads[t].remove(o);
            if c.threads[t].is_empty() && c.threads.len() > 1 {
                c.threads.remove(t);
            }
            if c.threads.iter().all(|t| t.is_empty()) {
                continue;
            }
            v.push(c);
        }
    }
    // drop a fault
    for t in 0..sc.threads.len() {
        for o in 0..sc.threads[t].len() {
            for f in 0..sc.threads[t][o].faults.len() {
                let mut c = sc.clone();
                c.threads[t][o].faults.remove(f);
                v.push(c);
            }
        }
    }
    // simplify an op
    for t in 0..sc.threads.len() {
        for o in 0..sc.threads[t].len() {
            let op = &sc.threads[t][o];
            let simpler: Vec<OpKind> = match &op.kind {
                OpKind::Parse { via, cb, truncate } => {
                    let mut s = Vec::new();
                    if cb.is_some() {
                        s.push(OpKind::Parse { via: via.clone(), cb: None, truncate: *truncate });
                    }
                    if truncate.is_some() {
                        s.push(OpKind::Parse { via: via.clone(), cb: cb.clone(), truncate: None });
                    }
                    if *via == Via::Adapter && truncate.is_none() && !op.faults.iter().any(|f| matches!(f, Fault::IterPanic { .. } | Fault::Reenter { seam: crate::sim::SeamKind::Iter, .. })) {
                        s.push(OpKind::Parse { via: Via::Direct, cb: cb.clone(), truncate: None });
                    }
                    s
                }
                OpKind::Metadata { via, cb } => {
                    let mut s = Vec::new();
                    if cb.is_some() {
                        s.push(OpKind::Metadata { via: via.clone(), cb: None });
                    }
                    s
                }
                OpKind::Events { meta, take: Some(_) } => vec![OpKind::Events { meta: *meta, take: None }],
                OpKind::ScaleConvert { .. } | OpKind::Render { .. } | OpKind::BuildAst | OpKind::ParseFree => vec![OpKind::Parse { via: Via::Direct, cb: None, truncate: None }],
                _ => vec![],
            };
            for k in simpler {
                let mut c = sc.clone();
                c.threads[t][o].kind = k;
                if !matches!(c.threads[t][o].kind, OpKind::Render { .. }) {
                    c.threads[t][o].faults.retain(|f| !matches!(f, Fault::Write { .. }));
                }
                v.push(c);
            }
        }
    }
    // fewer distinct parsers
    for t in 0..sc.threads.len() {
        for o in 0..sc.threads[t].len() {
            if sc.threads[t][o].parser != 0 && sc.parsers[sc.threads[t][o].parser] == sc.parsers[0] {
                let mut c = sc.clone();
                c.threads[t][o].parser = 0;
                v.push(c);
            }
        }
    }
    if sc.fresh_build {
        let mut c = sc.clone();
        c.fresh_build = false;
        v.push(c);
    }
    v
}

fn input_candidates(sc: &Scenario) -> Vec<Scenario> {
    let mut v = Vec::new();
    for (i, text) in sc.inputs.iter().enumerate() {
        let lines: Vec<&str> = text.split_inclusive('\n').collect();
        if lines.len() > 1 {
            // halves first, then single lines
            let h = lines.len() / 2;
            for keep in [&lines[..h], &lines[h..]] {
                let mut c = sc.clone();
                c.inputs[i] = keep.concat();
                v.push(c);
            }
            for l in 0..lines.len() {
                let mut c = sc.clone();
                c.inputs[i] = lines.iter().enumerate().filter(|(j, _)| *j != l).map(|(_, s)| *s).collect();
                v.push(c);
            }
        }
        // drop words of a single line
        if lines.len() <= 2 {
            let words: Vec<&str> = text.split_inclusive(' ').collect();
            if words.len() > 1 {
                for w in 0..words.len() {
                    let mut c = sc.clone();
                    c.inputs[i] = words.iter().enumerate().filter(|(j, _)| *j != w).map(|(_, s)| *s).collect();
                    v.push(c);
                }
            }
        }
    }
    v
}

/// merge runs of the schedule to reduce context switches
fn schedule_candidates(choices: &[u16]) -> Vec<Vec<u16>> {
    let mut runs: Vec<(u16, usize)> = Vec::new();
    for &c in choices {
        match runs.last_mut() {
            Some((t, n)) if *t == c => *n += 1,
            _ => runs.push((c, 1)),
        }
    }
    let mut v = Vec::new();
    for r in 0..runs.len() {
        // give this run's steps to the previous task (fallback handles non-runnable picks)
        if r == 0 {
            continue;
        }
        let mut c = Vec::new();
        for (i, (t, n)) in runs.iter().enumerate() {
            let task = if i == r { runs[r - 1].0 } else { *t };
            c.extend(std::iter::repeat(task).take(*n));
        }
        v.push(c);
    }
    // and truncation: after the list ends, the fallback keeps the current task
    if choices.len() > 4 {
        v.push(choices[..choices.len() / 2].to_vec());
        v.push(choices[..choices.len() * 3 / 4].to_vec());
    }
    v
}

fn minimise_c18(rf: &ReplayFile, max_execs: u64) -> ReplayFile {
    let class = rf.class.clone();
    let mut sc = rf.scenario.clone().unwrap();
    let mut choices: Vec<u16> = match &rf.sched {
        Some(SchedSpec::List { choices }) => choices.clone(),
        _ => vec![],
    };
    let mut b = Budget { execs: 0, max: max_execs };
    let mut viol = rf.violations.clone();
    let mut notes = rf.notes.clone();
    // the starting point must fail
    match fails(&sc, &class, &choices, 0, &mut b) {
        Some((c, v)) => {
            choices = c;
            viol = v;
        }
        None => {
            let mut out = rf.clone();
            out.notes.push("minimiser: the input did not reproduce in-process; left unchanged".into());
            return out;
        }
    }
    let before = (sc.all_ops().len(), sc.inputs.iter().map(|s| s.len()).sum::<usize>(), switches(&choices));
    let mut progress = true;
    while progress && b.execs < b.max {
        progress = false;
        'shape: loop {
            for mut cand in shape_candidates(&sc) {
                used_remap(&mut cand);
                if let Some((c, v)) = fails(&cand, &class, &choices, 48, &mut b) {
                    sc = cand;
                    choices = c;
                    viol = v;
                    progress = true;
                    continue 'shape;
                }
            }
            break;
        }
        'inputs: loop {
            for cand in input_candidates(&sc) {
                if let Some((c, v)) = fails(&cand, &class, &choices, 24, &mut b) {
                    sc = cand;
                    choices = c;
                    viol = v;
                    progress = true;
                    continue 'inputs;
                }
            }
            break;
        }
        'sched: loop {
            for cand in schedule_candidates(&choices) {
                if b.execs >= b.max {
                    break 'sched;
                }
                let rp = c18::reference_phase(&sc);
                b.execs += 1;
                let (v, st) = c18::execute(&rp, &SchedSpec::List { choices: cand }, false);
                if tainted(&mut b) {
                    break 'sched;
                }
                if v.iter().any(|x| x.class == class) && (switches(&st.choices) < switches(&choices) || st.choices.len() < choices.len()) {
                    choices = st.choices.clone();
                    viol = v;
                    progress = true;
                    continue 'sched;
                }
            }
            break;
        }
    }
    let after = (sc.all_ops().len(), sc.inputs.iter().map(|s| s.len()).sum::<usize>(), switches(&choices));
    notes.push(format!("minimised in {} executions: ops {}→{}, input bytes {}→{}, context switches {}→{}", b.execs, before.0, after.0, before.1, after.1, before.2, after.2));
    ReplayFile {
        property: rf.property.clone(),
        class,
        provenance: rf.provenance.clone(),
        prefix_run_indexes: vec![],
        scenario: Some(sc),
        sched: Some(SchedSpec::List { choices }),
        aisle: None,
        depth: None,
        storm: None,
        violations: viol.into_iter().filter(|v| v.class == rf.class).take(3).collect(),
        minimised: true,
        notes,
    }
}

fn c11_fails(sc: &AisleScenario, class: &str) -> Option<Vec<Violation>> {
    let (v, _) = c11::execute(sc);
    v.iter().any(|x| x.class == class).then_some(v)
}

fn minimise_c11(rf: &ReplayFile) -> ReplayFile {
    let class = rf.class.clone();
    let mut sc = rf.aisle.clone().unwrap();
    let Some(mut viol) = c11_fails(&sc, &class) else {
        let mut out = rf.clone();
        out.notes.push("minimiser: the input did not reproduce in-process; left unchanged".into());
        return out;
    };
    let before = (sc.text.chars().count(), sc.ops_a.len() + sc.ops_b.len());
    let mut progress = true;
    let mut n = 0;
    while progress && n < 20_000 {
        progress = false;
        let mut cands: Vec<AisleScenario> = Vec::new();
        if sc.other_text.is_some() {
            let mut c = sc.clone();
            c.other_text = None;
            c.ops_c.clear();
            c.order.clear();
            cands.push(c);
        }
        if !sc.order.is_empty() {
            let mut c = sc.clone();
            c.order.clear();
            cands.push(c);
        }
        for i in 0..sc.prelude.len() {
            let mut c = sc.clone();
            c.prelude.remove(i);
            cands.push(c);
        }
        for i in 0..sc.ops_c.len() {
            let mut c = sc.clone();
            c.ops_c.remove(i);
            cands.push(c);
        }
        // halves of the text first (large files)
        {
            let lines: Vec<&str> = sc.text.split_inclusive('\n').collect();
            if lines.len() > 8 {
                let h = lines.len() / 2;
                for keep in [&lines[..h], &lines[h..]] {
                    let mut c = sc.clone();
                    c.text = keep.concat();
                    cands.push(c);
                }
            }
        }
        for which in 0..2 {
            let len = if which == 0 { sc.ops_a.len() } else { sc.ops_b.len() };
            for i in 0..len {
                let mut c = sc.clone();
                if which == 0 { c.ops_a.remove(i); } else { c.ops_b.remove(i); }
                cands.push(c);
            }
            for i in 0..len {
                let ops = if which == 0 { &sc.ops_a } else { &sc.ops_b };
                if let AisleOp::Write { faults } = &ops[i] {
                    for f in 0..faults.len() {
                        let mut c = sc.clone();
                        let o = if which == 0 { &mut c.ops_a[i] } else { &mut c.ops_b[i] };
                        if let AisleOp::Write { faults } = o {
                            faults.remove(f);
                        }
                        cands.push(c);
                    }
                }
                if let AisleOp::Categorize { names } = &ops[i] {
                    if names.len() > 1 {
                        for f in 0..names.len() {
                            let mut c = sc.clone();
                            let o = if which == 0 { &mut c.ops_a[i] } else { &mut c.ops_b[i] };
                            if let AisleOp::Categorize { names } = o {
                                names.remove(f);
                            }
                            cands.push(c);
                        }
                    }
                }
            }
        }
        let chars: Vec<char> = sc.text.chars().collect();
        let lines: Vec<&str> = sc.text.split_inclusive('\n').collect();
        if lines.len() > 1 {
            for l in 0..lines.len() {
                let mut c = sc.clone();
                c.text = lines.iter().enumerate().filter(|(j, _)| *j != l).map(|(_, s)| *s).collect();
                cands.push(c);
            }
        }
        for i in 0..chars.len() {
            let mut c = sc.clone();
            c.text = chars.iter().enumerate().filter(|(j, _)| *j != i).map(|(_, ch)| *ch).collect();
            cands.push(c);
        }
        for c in cands {
            n += 1;
            if let Some(v) = c11_fails(&c, &class) {
                sc = c;
                viol = v;
                progress = true;
                break;
            }
        }
    }
    let mut notes = rf.notes.clone();
    notes.push(format!("minimised in {n} executions: text chars {}→{}, ops {}→{}", before.0, sc.text.chars().count(), before.1, sc.ops_a.len() + sc.ops_b.len()));
    ReplayFile {
        property: rf.property.clone(),
        class: class.clone(),
        provenance: rf.provenance.clone(),
        prefix_run_indexes: vec![],
        scenario: None,
        sched: None,
        aisle: Some(sc),
        depth: None,
        storm: None,
        violations: viol.into_iter().filter(|v| v.class == class).take(3).collect(),
        minimised: true,
        notes,
    }
}

/// A chain of nested parses: the smallest depth that still differs (bisection - a threshold on the
/// number of parses in progress is monotone in practice; the result is re-checked), then the
/// simplest texts and configuration that keep the class.
fn minimise_depth(rf: &ReplayFile) -> ReplayFile {
    let mut best = rf.depth.clone().unwrap();
    let class = rf.class.clone();
    let fails = |dc: &c18::DepthCase| c18::run_depth_case(dc).0.iter().any(|v| v.class == class);
    let mut execs = 0;
    // simpler texts first (they make every later test cheaper)
    let cands_outer = [">> a: b\nmix @@x{}\n".to_string(), ">> a: b\n".to_string()];
    let cands_target = ["x".to_string(), "@a{1}".to_string()];
    for t in &cands_target {
        let mut c = best.clone();
        c.target = t.clone();
        execs += 1;
        if fails(&c) {
            best = c;
            break;
        }
    }
    for o in &cands_outer {
        let mut c = best.clone();
        c.outer = o.clone();
        execs += 1;
        if fails(&c) {
            best = c;
            break;
        }
    }
    for cfg in [crate::scenario::ParserCfg { ext_bits: 0, converter: "empty".into() }, crate::scenario::ParserCfg { ext_bits: crate::scenario::EXT_ALL, converter: "empty".into() }] {
        let mut c = best.clone();
        c.cfg = cfg;
        execs += 1;
        if fails(&c) {
            best = c;
            break;
        }
    }
    let (mut lo, mut hi) = (0u32, best.depth); // fails at hi
    while hi - lo > 1 {
        let mid = lo + (hi - lo) / 2;
        let mut c = best.clone();
        c.depth = mid;
        execs += 1;
        if fails(&c) {
            hi = mid;
        } else {
            lo = mid;
        }
    }
    let mut c = best.clone();
    c.depth = hi;
    let (v, _) = c18::run_depth_case(&c);
    let mut out = rf.clone();
    if v.iter().any(|x| x.class == class) {
        out.depth = Some(c);
        out.violations = v;
        out.minimised = true;
        out.notes.push(format!("minimised in {execs} executions: smallest failing depth {hi}"));
    } else {
        out.notes.push("minimiser: the bisected depth does not reproduce; left unchanged".into());
    }
    out
}

pub fn run(a: &Args) -> i32 {
    c18::NO_SOAK.store(true, std::sync::atomic::Ordering::Relaxed);
    let path = a.pos.get(1).cloned().unwrap_or_else(|| die("minimise needs a file"));
    let out = a.str("out", &path);
    let text = std::fs::read_to_string(&path).unwrap_or_else(|e| die(&format!("{path}: {e}")));
    let rf: ReplayFile = serde_json::from_str(&text).unwrap_or_else(|e| die(&format!("{path}: {e}")));
    let min = if rf.property == "C11" {
        minimise_c11(&rf)
    } else if rf.depth.is_some() {
        minimise_depth(&rf)
    } else if rf.scenario.is_some() {
        // (a history-dependence found by the second reference pass is self-contained; one found
        // through the per-process table is not, and then the minimiser leaves the file unchanged)
        minimise_c18(&rf, a.u64("max-execs", 4000))
    } else {
        let mut r = rf.clone();
        r.notes.push("minimiser: class needs the worker's run prefix; not minimised".into());
        r
    };
    std::fs::write(&out, serde_json::to_string_pretty(&min).unwrap()).unwrap_or_else(|e| die(&format!("{out}: {e}")));
    for n in &min.notes {
        println!("{n}");
    }
    0
}
