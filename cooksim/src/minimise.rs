//! Delta-debugging minimiser for replay files (filled in below).
use crate::Args;

pub fn run(_a: &Args) -> i32 {
    crate::die("minimise: not implemented yet")
}
