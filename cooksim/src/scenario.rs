//! Scenario: everything needed to re-run one simulated execution without a PRNG
//! (the schedule is a separate `SchedSpec`). Generated from `run_seed` alone.

use serde::{Deserialize, Serialize};

use crate::gen;
use crate::rng::{mix2, Rng};
use crate::sim::{SeamKind, WriteFault};

#[derive(Clone, Debug, Serialize, Deserialize, PartialEq, Eq, PartialOrd, Ord, Hash)]
pub struct ParserCfg {
    pub ext_bits: u32,
    /// "bundled" | "empty"
    pub converter: String,
}

impl ParserCfg {
    pub fn key(&self) -> String {
        format!("{}:{}", self.ext_bits, self.converter)
    }
}

#[derive(Clone, Debug, Serialize, Deserialize, PartialEq)]
#[serde(rename_all = "lowercase")]
pub enum Via {
    /// `CooklangParser::parse*`
    Direct,
    /// `analysis::parse_events` over the simulator's event-iterator adapter
    Adapter,
}

/// Deterministic simulated callbacks; their verdicts are a pure function of
/// (salt, arguments), so they are part of the operation's key.
#[derive(Clone, Debug, Serialize, Deserialize, PartialEq)]
pub struct CbSpec {
    pub ref_check: Option<u32>,
    pub validator: Option<u32>,
}

#[derive(Clone, Debug, Serialize, Deserialize, PartialEq)]
#[serde(tag = "op", rename_all = "snake_case")]
pub enum OpKind {
    Parse {
        via: Via,
        #[serde(default, skip_serializing_if = "Option::is_none")]
        cb: Option<CbSpec>,
        /// adapter only: the iterator ends after `truncate` events
        #[serde(default, skip_serializing_if = "Option::is_none")]
        truncate: Option<u32>,
    },
    Metadata {
        via: Via,
        #[serde(default, skip_serializing_if = "Option::is_none")]
        cb: Option<CbSpec>,
    },
    /// the harness consumes the raw event stream itself; `take` = abandon after k events
    Events {
        meta: bool,
        #[serde(default, skip_serializing_if = "Option::is_none")]
        take: Option<u32>,
    },
    BuildAst,
    /// the free function `cooklang::parse` (a default parser built per call); `parser` is ignored
    ParseFree,
    ScaleConvert {
        factor: f64,
        system: String,
    },
    Approx {
        value: f64,
        accuracy: f32,
        max_den: u8,
        max_whole: u32,
    },
    Render {
        color: bool,
        /// 0: the report is rendered against its own source under the usual file name; 1: against
        /// the first half of the source (the file was truncated meanwhile); 2: against an empty
        /// source; 3: under another file name
        #[serde(default, skip_serializing_if = "is_zero")]
        foreign: u8,
    },
}

#[derive(Clone, Debug, Serialize, Deserialize, PartialEq)]
#[serde(tag = "kind", rename_all = "snake_case")]
pub enum Fault {
    /// the event adapter panics at its k-th `next()`
    IterPanic { k: u32 },
    /// a simulated callback panics at its j-th call
    CbPanic { j: u32 },
    /// a complete nested operation at the n-th seam of that kind
    Reenter { seam: SeamKind, n: u32, op: Box<Op> },
    /// a sink fault (Render only)
    Write { fault: WriteFault },
    /// the caller's code is slow: a real sleep of `ms` milliseconds at the n-th seam of that kind
    /// (the library has no clock seam; whatever reads the wall clock sees a stalled caller)
    Stall { seam: SeamKind, n: u32, ms: u32 },
    /// the clock jumps when this operation starts: the wall clock shows `wall_s` (seconds since the
    /// Unix epoch) and every clock read from now on advances simulated time by `step_us`
    /// (the clock seam, /verif/simclock; a no-op when the shim is not loaded)
    Clock { wall_s: i64, step_us: u64 },
}

impl Fault {
    pub fn is_hard(&self) -> bool {
        match self {
            Fault::IterPanic { .. } | Fault::CbPanic { .. } => true,
            Fault::Write { fault } => fault.is_hard(),
            Fault::Reenter { .. } | Fault::Stall { .. } | Fault::Clock { .. } => false,
        }
    }
}

#[derive(Clone, Debug, Serialize, Deserialize, PartialEq)]
pub struct Op {
    #[serde(flatten)]
    pub kind: OpKind,
    pub parser: usize,
    pub input: usize,
    #[serde(default, skip_serializing_if = "Vec::is_empty")]
    pub faults: Vec<Fault>,
    /// the input is handed to the library as a sub-slice starting `align` bytes into a buffer:
    /// the same text at another address (not part of the key: results must not depend on it)
    #[serde(default, skip_serializing_if = "is_zero")]
    pub align: u8,
}

fn is_zero(x: &u8) -> bool {
    *x == 0
}

impl Op {
    /// Identity key: what the result may depend on besides the parser
    /// configuration and the input. Faults are *not* part of it.
    pub fn kind_key(&self) -> String {
        serde_json::to_string(&self.kind).unwrap()
    }
    pub fn uses_adapter(&self) -> Option<bool> {
        match &self.kind {
            OpKind::Parse { via: Via::Adapter, .. } => Some(false),
            OpKind::Metadata { via: Via::Adapter, .. } => Some(true),
            _ => None,
        }
    }
}

#[derive(Clone, Debug, Serialize, Deserialize, PartialEq)]
pub struct Scenario {
    pub parsers: Vec<ParserCfg>,
    pub inputs: Vec<String>,
    pub hash_seed: u64,
    /// build the parsers from scratch under this run's hash seed instead of
    /// cloning the per-process templates
    pub fresh_build: bool,
    pub threads: Vec<Vec<Op>>,
}

impl Scenario {
    pub fn hash(&self) -> u64 {
        crate::rng::fnv(serde_json::to_string(self).unwrap().as_bytes())
    }
    pub fn all_ops(&self) -> Vec<&Op> {
        let mut v = Vec::new();
        for t in &self.threads {
            for op in t {
                v.push(op);
                for f in &op.faults {
                    if let Fault::Reenter { op, .. } = f {
                        v.push(op);
                    }
                }
            }
        }
        v
    }
}

// ---------------------------------------------------------------------------
// input pool

pub struct Pool {
    pub inputs: Vec<String>,
    pub xl: String,
    /// one input in `xl_den` is the very long recipe (it is expensive)
    pub xl_den: u32,
    /// upper bound on simulated threads per scenario (1 = the single-thread fallback used when a
    /// blocking std primitive held across a scheduling point stalls multi-thread executions)
    pub max_threads: usize,
}

impl Pool {
    /// canonical corpus (read from the working tree at run time) + hand-written
    /// inputs + inputs generated from fixed seeds (independent of VERIF_SEED, so
    /// the same (configuration, input) pairs recur across runs and processes)
    /// The pool never calls the library in a worker process: whatever the library builds lazily on
    /// first use must be first touched by the scenario under test, not by the harness (a probe
    /// with a bundled parser at start-up once made every process initialise first-use state the
    /// same way and hid a seeded change that depends on which converter is used first). Whether
    /// the large inputs produce an output is decided ONCE per check run by a separate process
    /// (`cooksim probe-pool`, started by check.py) that writes the chosen texts to a file named by
    /// $COOKSIM_POOL; without that file the first candidates are taken unchecked.
    pub fn load(repo: &str) -> Pool {
        let big = std::env::var("COOKSIM_POOL").ok().and_then(|p| std::fs::read_to_string(p).ok()).and_then(|t| serde_json::from_str::<BigInputs>(&t).ok());
        Pool::assemble(repo, big.unwrap_or_else(|| BigInputs::generate(&|_| true)))
    }

    /// for `cooksim probe-pool`: the large inputs chosen with the library's help
    pub fn probe_big_inputs() -> BigInputs {
        crate::c18::in_shuttle(|| {
            let probe = cooklang::CooklangParser::new(cooklang::Extensions::all(), cooklang::Converter::bundled());
            BigInputs::generate(&|text: &str| std::panic::catch_unwind(std::panic::AssertUnwindSafe(|| probe.parse(text).has_output())).unwrap_or(false))
        })
    }

    fn assemble(repo: &str, big: BigInputs) -> Pool {
        let mut inputs: Vec<String> = Vec::new();
        let path = format!("{repo}/tests/canonical.yaml");
        if let Ok(text) = std::fs::read_to_string(&path) {
            if let Ok(v) = serde_yaml::from_str::<serde_yaml::Value>(&text) {
                if let Some(tests) = v.get("tests").and_then(|t| t.as_mapping()) {
                    for (_, case) in tests {
                        if let Some(src) = case.get("source").and_then(|s| s.as_str()) {
                            inputs.push(src.to_string());
                        }
                    }
                }
            }
        }
        for s in gen::HANDWRITTEN {
            inputs.push(s.to_string());
        }
        for i in 0..192u64 {
            let mut r = Rng::new(mix2(0xF00D_F00D, i));
            inputs.push(gen::recipe(&mut r));
        }
        inputs.extend(big.large);
        Pool { inputs, xl: big.xl, xl_den: 1500, max_threads: 4 }
    }
}

/// The six large recipes of the pool and the one very long recipe (> 64 KiB of step text: size
/// thresholds and time budgets; kept apart from the pool because it is expensive, drawn for 1
/// input in 1 500). They must produce an output - one hard parser error anywhere and the analysis
/// of the whole text is skipped: candidates are generated from successive seeds until
/// `has_output` accepts one.
#[derive(Serialize, Deserialize)]
pub struct BigInputs {
    pub large: Vec<String>,
    pub xl: String,
}

impl BigInputs {
    pub fn generate(has_output: &dyn Fn(&str) -> bool) -> BigInputs {
        let mut large = Vec::new();
        for i in 0..6u64 {
            for attempt in 0..20u64 {
                let mut r = Rng::new(mix2(0xB16B_16 + attempt * 1000, i));
                let t = gen::recipe_large(&mut r);
                if has_output(&t) || attempt == 19 {
                    large.push(t);
                    break;
                }
            }
        }
        let mut xl_input = String::new();
        for attempt in 0..40u64 {
            let mut r = Rng::new(0x00E1_7A11 + attempt);
            let mut xl = String::new();
            while xl.len() < 300_000 {
                let piece = gen::recipe_large(&mut r);
                if has_output(&piece) {
                    xl.push_str(&piece);
                }
            }
            if has_output(&xl) || attempt == 39 {
                xl_input = xl;
                break;
            }
        }
        BigInputs { large, xl: xl_input }
    }
}

pub const EXT_ALL: u32 = (1 << 1) | (1 << 3) | (1 << 5) | (1 << 6) | (1 << 7) | (1 << 9) | (1 << 10) | (1 << 11);
pub const EXT_COMPAT: u32 = EXT_ALL & !(1 << 10);
const EXT_BITS: &[u32] = &[1 << 1, 1 << 3, 1 << 5, 1 << 6, 1 << 7, 1 << 9, 1 << 10, (1 << 11) | (1 << 1)];

pub fn gen_cfg(r: &mut Rng) -> ParserCfg {
    if r.chance(1, 6) {
        // a converter built through ConverterBuilder from the bundled units plus a layer
        return ParserCfg { ext_bits: if r.chance(2, 3) { EXT_ALL } else { EXT_COMPAT }, converter: if r.chance(1, 2) { "custom-de" } else { "custom-si" }.into() };
    }
    match r.below(8) {
        0 => ParserCfg { ext_bits: 0, converter: "empty".into() },
        1 | 2 => ParserCfg { ext_bits: EXT_ALL, converter: "bundled".into() },
        3 => ParserCfg { ext_bits: EXT_COMPAT, converter: "bundled".into() },
        4 => ParserCfg { ext_bits: EXT_ALL, converter: "empty".into() },
        _ => {
            let mut b = 0;
            for e in EXT_BITS {
                if r.chance(1, 2) {
                    b |= e;
                }
            }
            ParserCfg {
                ext_bits: b,
                converter: if r.chance(1, 2) { "bundled" } else { "empty" }.into(),
            }
        }
    }
}

/// Per-run swarm switches: which perturbation kinds are enabled at all
#[derive(Clone, Debug)]
pub struct Swarm {
    pub iter_panic: bool,
    pub cb_panic: bool,
    pub reenter: bool,
    pub truncate: bool,
    pub abandon: bool,
    pub write_faults: bool,
    pub callbacks: bool,
}

fn gen_cb(r: &mut Rng) -> CbSpec {
    let c = CbSpec {
        ref_check: r.chance(2, 3).then(|| r.below(4) as u32),
        validator: r.chance(2, 3).then(|| r.below(4) as u32),
    };
    if c.ref_check.is_none() && c.validator.is_none() {
        CbSpec { ref_check: Some(0), validator: Some(1) }
    } else {
        c
    }
}

fn gen_plain_op(r: &mut Rng, nparsers: usize, ninputs: usize, sw: &Swarm) -> Op {
    let parser = r.below(nparsers);
    let input = r.below(ninputs);
    let via = if r.chance(1, 2) { Via::Direct } else { Via::Adapter };
    let kind = match r.below(100) {
        0..=34 => OpKind::Parse { via, cb: None, truncate: None },
        35..=46 => OpKind::Parse {
            via,
            cb: if sw.callbacks { Some(gen_cb(r)) } else { None },
            truncate: None,
        },
        47..=56 => OpKind::Metadata {
            via,
            cb: if sw.callbacks && r.chance(1, 2) { Some(gen_cb(r)) } else { None },
        },
        57..=63 => OpKind::Events { meta: r.chance(1, 4), take: None },
        64..=65 => OpKind::BuildAst,
        66..=67 => OpKind::ParseFree,
        68..=82 => OpKind::ScaleConvert {
            factor: *r.pick(&[0.5, 1.0, 1.5, 2.0, 3.0, 0.333, 10.0]),
            system: if r.chance(1, 2) { "metric" } else { "imperial" }.into(),
        },
        83..=89 => OpKind::Approx {
            value: *r.pick(&[0.5, 0.333, 1.26, 2.74, 0.1, 7.0, 3.999, 0.0625, 15.51]),
            accuracy: *r.pick(&[0.05f32, 0.1, 0.0, 1.0]),
            max_den: *r.pick(&[2u8, 4, 8, 16, 64]),
            max_whole: *r.pick(&[0u32, 5, 100]),
        },
        _ => OpKind::Render { color: r.chance(1, 2), foreign: if r.chance(1, 3) { r.range(1, 3) as u8 } else { 0 } },
    };
    Op { kind, parser, input, faults: vec![], align: 0 }
}

/// number of events the pull parser yields — used only to *place* faults where
/// they can fire. If the library were nondeterministic here the scenario would
/// still be fully written out in the replay file.
pub fn count_events(ext_bits: u32, input: &str, meta: bool) -> u32 {
    let ext = cooklang::Extensions::from_bits_truncate(ext_bits);
    let p = cooklang::parser::PullParser::new(input, ext);
    let r = std::panic::catch_unwind(std::panic::AssertUnwindSafe(|| {
        if meta {
            p.into_meta_iter().count()
        } else {
            p.count()
        }
    }));
    r.unwrap_or(0) as u32
}

pub fn gen_scenario(run_seed: u64, pool: &Pool) -> Scenario {
    let root = Rng::new(run_seed);
    let mut r = root.fork(1);
    let sw = Swarm {
        iter_panic: r.chance(1, 2),
        cb_panic: r.chance(1, 2),
        reenter: r.chance(1, 2),
        truncate: r.chance(1, 2),
        abandon: r.chance(1, 2),
        write_faults: r.chance(1, 2),
        callbacks: r.chance(3, 4),
    };
    // parsers
    let np = *r.pick(&[1usize, 1, 1, 2, 2, 3]);
    let mut parsers: Vec<ParserCfg> = Vec::new();
    for i in 0..np {
        if i > 0 && r.chance(1, 4) {
            // the same configuration built twice
            let c = parsers[r.below(i)].clone();
            parsers.push(c);
        } else {
            parsers.push(gen_cfg(&mut r));
        }
    }
    // inputs
    let ni = r.range(1, 4);
    let mut inputs: Vec<String> = Vec::new();
    let mut twin_pairs: Vec<(usize, usize)> = Vec::new();
    for i in 0..ni {
        let s = if i > 0 && r.chance(1, 4) {
            // equal length, equal prefix: what a wrongly keyed cache confuses
            let of = r.below(i);
            twin_pairs.push((of, i));
            twin(&inputs[of], &mut r)
        } else if r.chance(1, pool.xl_den) {
            pool.xl.clone()
        } else if r.chance(3, 5) {
            r.pick(&pool.inputs).clone()
        } else if r.chance(1, 25) {
            gen::recipe_large(&mut r)
        } else {
            gen::recipe(&mut r)
        };
        inputs.push(s);
    }
    // threads and ops
    let nt = (*r.pick(&[1usize, 2, 2, 2, 3, 3, 4])).min(pool.max_threads.max(1));
    let twins = twin_pairs.clone();
    let mut threads: Vec<Vec<Op>> = Vec::new();
    let mut hard_budget = 2;
    let mut reenter_budget = 2;
    let mut fr = root.fork(2);
    for _ in 0..nt {
        let nops = *r.pick(&[1usize, 1, 2, 2, 3, 3, 4, 6]);
        let mut ops = Vec::new();
        for _ in 0..nops {
            let mut op = gen_plain_op(&mut r, np, ni, &sw);
            // callbacks only run for metadata entries and recipe references: aim them there
            if matches!(&op.kind, OpKind::Parse { cb: Some(_), .. } | OpKind::Metadata { cb: Some(_), .. }) {
                let fires = |t: &String| t.contains(">>") || t.contains("@@") || t.starts_with("---");
                if !fires(&inputs[op.input]) {
                    let c: Vec<usize> = (0..ni).filter(|&i| fires(&inputs[i])).collect();
                    if !c.is_empty() {
                        op.input = *r.pick(&c);
                    }
                }
            }
            let ext = parsers[op.parser].ext_bits;
            let text = &inputs[op.input];
            // keyed variations
            match &mut op.kind {
                OpKind::Parse { via: Via::Adapter, truncate, .. } if sw.truncate && fr.chance(1, 5) => {
                    let n = count_events(ext, text, false);
                    *truncate = Some(fr.below(n as usize + 1) as u32);
                }
                OpKind::Events { take, meta } if sw.abandon && fr.chance(1, 2) => {
                    let n = count_events(ext, text, *meta);
                    *take = Some(fr.below(n as usize + 1) as u32);
                }
                _ => {}
            }
            // faults
            let adapter = op.uses_adapter();
            if let Some(meta) = adapter {
                if sw.iter_panic && hard_budget > 0 && fr.chance(1, 6) {
                    let n = count_events(ext, text, meta);
                    op.faults.push(Fault::IterPanic { k: fr.below(n as usize + 1) as u32 });
                    hard_budget -= 1;
                }
            }
            let has_cb = matches!(&op.kind, OpKind::Parse { cb: Some(_), .. } | OpKind::Metadata { cb: Some(_), .. });
            if has_cb && sw.cb_panic && hard_budget > 0 && fr.chance(1, 5) {
                op.faults.push(Fault::CbPanic { j: fr.below(3) as u32 });
                hard_budget -= 1;
            }
            // a third of the operations with an injected panic also get an operation that the
            // caller performs from a destructor while that panic unwinds (plain parse or metadata
            // pass of some input, on the same parser half of the time)
            if op.faults.iter().any(|f| matches!(f, Fault::IterPanic { .. } | Fault::CbPanic { .. })) && fr.chance(1, 3) {
                let kind = if fr.chance(1, 3) { OpKind::Metadata { via: Via::Direct, cb: None } } else { OpKind::Parse { via: Via::Direct, cb: None, truncate: None } };
                let inner = Op { kind, parser: if fr.chance(1, 2) { op.parser } else { fr.below(np) }, input: fr.below(ni), faults: vec![], align: 0 };
                op.faults.push(Fault::Reenter { seam: SeamKind::Unwind, n: 0, op: Box::new(inner) });
            }
            if sw.reenter && reenter_budget > 0 && fr.chance(1, 5) {
                let seam = match (adapter.is_some(), has_cb, fr.below(3)) {
                    (true, _, 0) => SeamKind::Iter,
                    (_, true, 1) => SeamKind::Cb,
                    _ => SeamKind::Trace,
                };
                let n = match seam {
                    SeamKind::Iter => {
                        let c = count_events(ext, text, adapter.unwrap_or(false));
                        fr.below(c as usize + 1) as u32
                    }
                    SeamKind::Cb => fr.below(3) as u32,
                    _ => fr.below(6) as u32,
                };
                let mut inner = gen_plain_op(&mut fr, np, ni, &sw);
                // nested ops on the *same* parser half of the time
                if fr.chance(1, 2) {
                    inner.parser = op.parser;
                }
                op.faults.push(Fault::Reenter { seam, n, op: Box::new(inner) });
                reenter_budget -= 1;
            }
            if let OpKind::Render { .. } = op.kind {
                if sw.write_faults && fr.chance(2, 3) {
                    let nf = fr.range(1, 3);
                    for _ in 0..nf {
                        let call = fr.below(24) as u32;
                        let f = match fr.below(8) {
                            0..=2 => WriteFault::Short { call, n: fr.range(1, 5) as u32 },
                            3..=4 => WriteFault::Eintr { call },
                            5 if hard_budget > 0 => {
                                hard_budget -= 1;
                                WriteFault::WouldBlock { call }
                            }
                            6 if hard_budget > 0 => {
                                hard_budget -= 1;
                                WriteFault::IoErr {
                                    call,
                                    errkind: fr.pick(&["StorageFull", "BrokenPipe", "Other", "PermissionDenied"]).to_string(),
                                }
                            }
                            7 if hard_budget > 0 => {
                                hard_budget -= 1;
                                if fr.chance(1, 2) { WriteFault::Zero { call } } else { WriteFault::Panic { call: call % 6 } }
                            }
                            _ => WriteFault::Short { call, n: 1 },
                        };
                        if !op.faults.iter().any(|x| matches!(x, Fault::Write { fault } if fault.call() == f.call())) {
                            op.faults.push(Fault::Write { fault: f });
                        }
                    }
                }
            }
            // the same text at another address
            if fr.chance(1, 3) {
                op.align = fr.range(1, 7) as u8;
            }
            // a clock jump at the start of the operation: another date (day, half of the year, century,
            // the epoch itself, the 2038 boundary, the last second of a year) and another speed of time
            if fr.chance(1, 8) {
                let wall_s = *fr.pick(&[
                    crate::clock::EPOCH_A + 86_400,
                    crate::clock::EPOCH_A + 200 * 86_400,
                    crate::clock::EPOCH_A - 20 * 365 * 86_400,
                    2_400_000_000,
                    0,
                    2_147_483_647,
                    951_782_400,
                    1_798_761_599,
                    crate::clock::EPOCH_A + 13 * 3600 + 59 * 60 + 59,
                ]);
                let step_us = *fr.pick(&[0u64, 1, 1, 1_000, 50_000, 10_000_000]);
                op.faults.push(Fault::Clock { wall_s, step_us });
            }
            // a stalled caller, mostly on big inputs (time budgets, expiring caches)
            let big = inputs[op.input].len() > 40_000;
            if (big && fr.chance(1, 2)) || fr.chance(1, 600) {
                let seam = if op.uses_adapter().is_some() { SeamKind::Iter } else if has_cb { SeamKind::Cb } else { SeamKind::Trace };
                op.faults.push(Fault::Stall { seam, n: fr.below(3) as u32, ms: 130 });
            }
            ops.push(op);
        }
        threads.push(ops);
    }
    // the same plain operation on both members of a twin pair, on the same parser
    let mut tr = root.fork(5);
    for (a, b) in twins {
        if inputs[a] == inputs[b] || !tr.chance(3, 4) {
            continue;
        }
        let parser = tr.below(np);
        // where do the twins differ? aim the operation at the part of the result that differs
        let diff_in_meta = {
            let (x, y) = (inputs[a].as_bytes(), inputs[b].as_bytes());
            let i = (0..x.len().min(y.len())).find(|&i| x[i] != y[i]).unwrap_or(0);
            let line_start = inputs[a][..i.min(inputs[a].len())].rfind('\n').map(|p| p + 1).unwrap_or(0);
            inputs[a][line_start..].starts_with(">>") || inputs[a].starts_with("---")
        };
        let kind = match if diff_in_meta { tr.below(3) + 1 } else { tr.below(6) } {
            0 | 1 => OpKind::Parse { via: Via::Direct, cb: None, truncate: None },
            2 => OpKind::Metadata { via: Via::Direct, cb: None },
            3 => OpKind::Parse { via: Via::Adapter, cb: None, truncate: None },
            4 => OpKind::ScaleConvert { factor: 2.0, system: "metric".into() },
            _ => OpKind::Events { meta: false, take: None },
        };
        for input in [a, b] {
            let t = tr.below(threads.len());
            threads[t].push(Op { kind: kind.clone(), parser, input, faults: vec![], align: 0 });
        }
    }
    Scenario {
        parsers,
        inputs,
        hash_seed: root.fork(3).next_u64(),
        fresh_build: root.fork(4).chance(1, 4),
        threads,
    }
}

/// A near-copy of `s` of the same byte length: what an imprecisely keyed cache or memo
/// confuses. Three kinds: one alphanumeric replaced in the second half (same length and
/// prefix), the ASCII case of one letter flipped anywhere (case-folded keys), one digit
/// changed (numeric normalisation).
fn twin(s: &str, r: &mut Rng) -> String {
    // a fifth kind, one time in five: the same metadata written the other way (old-style `>> k: v`
    // lines moved into a YAML front matter, each value in a random YAML spelling - plain, quoted
    // with or without padding, literal or folded block). Values that are "the same" to a reader
    // reach the library as different strings (trailing newline, padding), which is what a
    // normalising key of a memo confuses.
    if r.chance(1, 5) {
        if let Some(t) = respell_metadata(s, r) {
            return t;
        }
    }
    // a sixth kind, one time in five: "the same recipe" as a different text - other line ends,
    // trailing blanks, a BOM, a final newline or none, a comment, a decomposed accent, tabs for
    // spaces, `{}` after a one-word name. Spans, texts and line counts legitimately differ
    // between such variants, so whatever is memoised under a normalised key shows.
    if r.chance(1, 5) {
        if let Some(t) = lexical_variant(s, r) {
            return t;
        }
    }
    let chars: Vec<char> = s.chars().collect();
    if chars.len() < 2 {
        return format!("{s}x");
    }
    let half = chars.len() / 2;
    let mut c = chars.clone();
    match r.below(4) {
        0 | 1 => {
            let cands: Vec<usize> = (0..chars.len()).filter(|&i| chars[i].is_ascii_alphabetic()).collect();
            if cands.is_empty() {
                return s.to_string();
            }
            // prefer a letter right after a digit, '%' or '{' (a unit) when there is one
            let unitish: Vec<usize> = cands.iter().copied().filter(|&i| i > 0 && (chars[i - 1] == '%' || chars[i - 1] == ' ' && i > 1 && chars[i - 2].is_ascii_digit())).collect();
            let i = if !unitish.is_empty() && r.chance(2, 3) { *r.pick(&unitish) } else { *r.pick(&cands) };
            c[i] = if c[i].is_ascii_lowercase() { c[i].to_ascii_uppercase() } else { c[i].to_ascii_lowercase() };
        }
        2 => {
            let cands: Vec<usize> = (0..chars.len()).filter(|&i| chars[i].is_ascii_digit()).collect();
            if cands.is_empty() {
                return s.to_string();
            }
            let i = *r.pick(&cands);
            c[i] = if c[i] == '9' { '8' } else { ((c[i] as u8) + 1) as char };
        }
        _ => {
            let cands: Vec<usize> = (half..chars.len()).filter(|&i| chars[i].is_ascii_alphanumeric()).collect();
            if cands.is_empty() {
                return s.to_string();
            }
            let i = *r.pick(&cands);
            c[i] = if c[i] == 'z' { 'y' } else { 'z' };
        }
    }
    c.into_iter().collect()
}

fn yaml_spelling(v: &str, r: &mut Rng) -> String {
    let dq = |x: &str| format!("\"{}\"", x.replace('\\', "\\\\").replace('"', "\\\""));
    match r.below(8) {
        0 => dq(v),
        1 => dq(&format!("{v} ")),
        2 => dq(&format!(" {v}")),
        3 => format!("'{}'", v.replace('\'', "''")),
        4 => format!("|\n  {v}"),
        5 => format!(">-\n  {v}"),
        6 => format!(">\n  {v}"),
        _ => dq(&format!("{v}\t")),
    }
}

/// `>> key: value` lines (not the `[config]` keys) moved into a front matter block, or - if the
/// input has a front matter already - its plain one-line scalars respelled.
fn respell_metadata(s: &str, r: &mut Rng) -> Option<String> {
    let nl = if s.contains("\r\n") { "\r\n" } else { "\n" };
    let lines: Vec<&str> = s.split(nl).collect();
    if lines.first().map(|l| l.trim_end()) == Some("---") {
        let end = lines.iter().skip(1).position(|l| l.trim_end() == "---")? + 1;
        let mut out: Vec<String> = Vec::new();
        let mut changed = false;
        for (i, l) in lines.iter().enumerate() {
            if i > 0 && i < end {
                if let Some((k, v)) = l.split_once(": ") {
                    let plain = !v.is_empty() && !v.starts_with(['[', '{', '"', '\'', '|', '>', '&', '*', '!', '#', '-', ' ']) && !v.contains(": ") && !v.contains(" #");
                    if plain && !k.starts_with([' ', '-']) && r.chance(2, 3) {
                        out.push(format!("{k}: {}", yaml_spelling(v, r)));
                        changed = true;
                        continue;
                    }
                }
            }
            out.push(l.to_string());
        }
        return changed.then(|| out.join(nl));
    }
    let mut meta: Vec<(String, String)> = Vec::new();
    let mut body: Vec<&str> = Vec::new();
    for l in &lines {
        match l.strip_prefix(">> ").and_then(|x| x.split_once(": ")) {
            Some((k, v)) if !k.starts_with('[') && !k.contains(':') && !v.trim().is_empty() => meta.push((k.trim().to_string(), v.trim().to_string())),
            _ => body.push(l),
        }
    }
    if meta.is_empty() {
        return None;
    }
    let mut out = String::from("---");
    out.push_str(nl);
    let mut seen: Vec<&str> = Vec::new();
    for (k, v) in &meta {
        if seen.contains(&k.as_str()) {
            continue; // a YAML mapping has no duplicate keys
        }
        seen.push(k);
        out.push_str(&format!("{k}: {}", yaml_spelling(v, r)).replace('\n', nl));
        out.push_str(nl);
    }
    out.push_str("---");
    out.push_str(nl);
    out.push_str(&body.join(nl));
    Some(out)
}

fn lexical_variant(s: &str, r: &mut Rng) -> Option<String> {
    const PAIRS: &[(&str, &str)] = &[
        ("\u{e9}", "e\u{301}"), ("\u{e8}", "e\u{300}"), ("\u{e0}", "a\u{300}"), ("\u{f1}", "n\u{303}"), ("\u{fc}", "u\u{308}"), ("\u{e2}", "a\u{302}"), ("\u{ee}", "i\u{302}"),
    ];
    let first = r.below(11);
    for k in 0..11 {
        let t = match (first + k) % 11 {
            0 => {
                if s.contains("\r\n") {
                    s.replace("\r\n", "\n")
                } else {
                    s.replace('\n', "\r\n")
                }
            }
            1 => {
                // trailing blanks at every line end, or at one
                let pad = *r.pick(&[" ", "\t", "  "]);
                let all = r.chance(1, 2);
                let n = s.matches('\n').count();
                let only = if n > 0 { r.below(n) } else { 0 };
                let mut out = String::new();
                for (i, l) in s.split('\n').enumerate() {
                    if i > 0 {
                        out.push('\n');
                    }
                    let (body, cr) = match l.strip_suffix('\r') {
                        Some(b) => (b, "\r"),
                        None => (l, ""),
                    };
                    out.push_str(body);
                    if i < n && (all || i == only) && !body.is_empty() {
                        out.push_str(pad);
                    }
                    out.push_str(cr);
                }
                out
            }
            2 => match s.strip_suffix('\n') {
                Some(b) => b.strip_suffix('\r').unwrap_or(b).to_string(),
                None => format!("{s}\n"),
            },
            3 => match s.strip_prefix('\u{feff}') {
                Some(b) => b.to_string(),
                None => format!("\u{feff}{s}"),
            },
            4 => {
                let mut t = s.to_string();
                for (a, b) in PAIRS {
                    if t.contains(a) {
                        t = t.replacen(a, b, 1);
                        break;
                    } else if t.contains(b) {
                        t = t.replacen(b, a, 1);
                        break;
                    }
                }
                t
            }
            5 => {
                // a comment at the end of a step line
                let lines: Vec<&str> = s.split('\n').collect();
                let cands: Vec<usize> = (0..lines.len()).filter(|&i| !lines[i].trim().is_empty() && !lines[i].starts_with(">>") && !lines[i].starts_with('=') && !lines[i].starts_with("---") && !lines[i].contains("--") && !lines[i].contains(": ")).collect();
                if cands.is_empty() {
                    s.to_string()
                } else {
                    let i = *r.pick(&cands);
                    let mut out: Vec<String> = lines.iter().map(|l| l.to_string()).collect();
                    let (body, cr) = match out[i].strip_suffix('\r') {
                        Some(b) => (b.to_string(), "\r"),
                        None => (out[i].clone(), ""),
                    };
                    out[i] = format!("{body} -- note to self{cr}");
                    out.join("\n")
                }
            }
            6 => {
                // a block comment between two words
                match s.char_indices().filter(|&(i, c)| c == ' ' && i > 0 && s[..i].chars().next_back().map_or(false, |p| p.is_alphabetic())).map(|(i, _)| i).nth(r.below(4)) {
                    Some(i) => format!("{} [- x -]{}", &s[..i], &s[i..]),
                    None => s.to_string(),
                }
            }
            7 => {
                // tab or double space for one single space
                let cands: Vec<usize> = s.match_indices(' ').map(|(i, _)| i).collect();
                if cands.is_empty() {
                    s.to_string()
                } else {
                    let i = *r.pick(&cands);
                    format!("{}{}{}", &s[..i], r.pick_str(&["\t", "  "]), &s[i + 1..])
                }
            }
            // a blank line (or a line of blanks) before everything else
            10 => match s.strip_prefix('\n') {
                Some(b) => b.to_string(),
                None => format!("{}\n{s}", r.pick_str(&["", " ", "\t"])),
            },
            8 => {
                if s.contains("\n\n\n") {
                    s.replacen("\n\n\n", "\n\n", 1)
                } else {
                    s.replacen("\n\n", "\n\n\n", 1)
                }
            }
            _ => {
                // `@word ` -> `@word{} ` (or back)
                if let Some(i) = s.find("{} ") {
                    format!("{}{}", &s[..i], &s[i + 2..])
                } else {
                    let mut out = None;
                    for (i, _) in s.match_indices('@') {
                        let rest = &s[i + 1..];
                        let end = rest.find(|c: char| !c.is_alphanumeric()).unwrap_or(rest.len());
                        if end > 0 && rest[end..].starts_with(' ') && !rest[end..].trim_start().starts_with('{') {
                            out = Some(format!("{}{{}}{}", &s[..i + 1 + end], &s[i + 1 + end..]));
                            break;
                        }
                    }
                    out.unwrap_or_else(|| s.to_string())
                }
            }
        };
        if t != s {
            return Some(t);
        }
    }
    None
}
