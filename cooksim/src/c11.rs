//! C11: aisle configuration — parse invariants (P1, sampled), write / round-trip
//! under sink faults (W1–W3), replica histories over the interior-mutable cache
//! (H1) and lookups (L1).

use std::collections::BTreeMap;
use std::panic::{catch_unwind, AssertUnwindSafe};

use cooklang::aisle::{self, AisleConf, AisleConfError};
use serde::{Deserialize, Serialize};

use crate::rng::{fnv, mix3, Rng};
use crate::sim::{FaultyWriter, Violation, WriteFault};
use crate::{die, write_replay, Args, Provenance, ReplayFile};

#[derive(Clone, Debug, Serialize, Deserialize, PartialEq)]
#[serde(tag = "op", rename_all = "snake_case")]
pub enum AisleOp {
    Lookup,
    Reverse,
    Categorize { names: Vec<String> },
    /// replace the replica by a clone of itself
    CloneSwap,
    Write { faults: Vec<WriteFault> },
    /// parse(write(replica)) must equal the replica
    Reparse,
    /// serde round trip through JSON of the replica must equal it
    Serde,
}

#[derive(Clone, Debug, Serialize, Deserialize, PartialEq)]
pub struct AisleScenario {
    pub text: String,
    pub hash_seed: u64,
    pub ops_a: Vec<AisleOp>,
    pub ops_b: Vec<AisleOp>,
    /// a third configuration, parsed from a different text, alive at the same time and
    /// operated on in between (state shared through a static / thread_local keyed by
    /// address or size would confuse the two)
    #[serde(default, skip_serializing_if = "Option::is_none")]
    pub other_text: Option<String>,
    #[serde(default, skip_serializing_if = "Vec::is_empty")]
    pub ops_c: Vec<AisleOp>,
    /// interleaving of the three histories: each entry takes the next operation of replica
    /// 0 (A), 1 (B) or 2 (C). Empty = all of A, then all of B, then all of C.
    #[serde(default, skip_serializing_if = "Vec::is_empty")]
    pub order: Vec<u8>,
    /// texts parsed (and dropped) on this thread right before `text`: the file as it was a moment
    /// ago - a prefix cut at some byte, the text without its last character or final newline, the
    /// text with something appended. What `parse` returns for `text` may not depend on them.
    #[serde(default, skip_serializing_if = "Vec::is_empty")]
    pub prelude: Vec<String>,
}

#[derive(Default, Clone, Serialize)]
pub struct AisleStats {
    pub parsed_ok: bool,
    pub parse_err: Option<String>,
    pub names: usize,
    pub categories: usize,
    pub write_calls: u32,
    pub golden_len: usize,
    pub fired: BTreeMap<String, u64>,
    pub ops: u64,
    pub lookups_checked: u64,
}

thread_local! {
    /// text -> result of its first parse in this process
    static SEEN_PARSES: std::cell::RefCell<std::collections::HashMap<u64, u64>> = std::cell::RefCell::new(std::collections::HashMap::new());
}

fn v(class: &str, detail: String) -> Violation {
    Violation { class: class.into(), key: String::new(), phase: "c11".into(), detail }
}

fn span_ok(input: &str, s: cooklang::Span) -> bool {
    s.start() <= s.end() && s.end() <= input.len() && input.is_char_boundary(s.start()) && input.is_char_boundary(s.end())
}

/// Small executable model of the format (the statement's "categories in file order
/// with their trimmed `|`-separated ingredient names"). `None` = the model rejects
/// the file. Category names are compared modulo surrounding white space.
fn model_parse(input: &str) -> Option<Vec<(String, Vec<Vec<String>>)>> {
    model_parse_with(input, true)
}

/// `strict_category`: reject a `|` inside a category header, as the pinned implementation does.
/// The statement does not demand that, so a result that keeps such a name verbatim is compared
/// with the lenient model instead of being reported.
fn model_parse_with(input: &str, strict_category: bool) -> Option<Vec<(String, Vec<Vec<String>>)>> {
    let mut cats: Vec<(String, Vec<Vec<String>>)> = Vec::new();
    let mut names_seen: Vec<String> = Vec::new();
    for line in input.lines() {
        let line = match line.find("//") {
            Some(i) => &line[..i],
            None => line,
        };
        let line = line.trim();
        if line.len() >= 2 && line.starts_with('[') && line.ends_with(']') {
            let name = &line[1..line.len() - 1];
            if (strict_category && name.contains('|')) || cats.iter().any(|c| c.0 == name) {
                return None;
            }
            cats.push((name.to_string(), Vec::new()));
        } else if !line.is_empty() {
            let mut names = Vec::new();
            for n in line.split('|') {
                let n = n.trim().to_string();
                if names_seen.contains(&n) {
                    return None;
                }
                names_seen.push(n.clone());
                names.push(n);
            }
            cats.last_mut()?.1.push(names);
        }
    }
    Some(cats)
}

fn write_golden(conf: &AisleConf) -> Result<(Vec<u8>, u32), String> {
    let mut w = FaultyWriter::new(vec![], false);
    match aisle::write(conf, &mut w) {
        Ok(()) => Ok((w.accepted, w.calls)),
        Err(e) => Err(format!("fault-free write failed: {e}")),
    }
}

fn check_lookup(conf: &AisleConf, out: &mut Vec<Violation>, st: &mut AisleStats) {
    let info = conf.ingredients_info();
    let mut total = 0;
    // a name listed twice cannot happen for a parsed conf (P1), so every name maps
    // to exactly its own line
    for cat in &conf.categories {
        for igr in &cat.ingredients {
            for name in &igr.names {
                total += 1;
                st.lookups_checked += 1;
                match info.get(name) {
                    None => out.push(v("lookup", format!("name {name:?} of category {:?} not found by ingredients_info", cat.name))),
                    Some(i) => {
                        if i.category != cat.name || i.common_name != igr.names[0] || i.name != *name {
                            out.push(v("lookup", format!("name {name:?}: got category {:?} common {:?} name {:?}, expected category {:?} common {:?}", i.category, i.common_name, i.name, cat.name, igr.names[0])));
                        }
                    }
                }
            }
        }
    }
    if info.len() != total {
        out.push(v("lookup", format!("ingredients_info has {} entries for {} names", info.len(), total)));
    }
}


/// L1 through `IngredientList::categorize`: every listed name of the configuration ends up under
/// its category as the first name of its line, every other name under "other".
fn check_categorize(r: &AisleConf, names: &[String], out: &mut Vec<Violation>) {
    let conv = cooklang::Converter::empty();
    let mut list = cooklang::ingredient_list::IngredientList::new();
    for n in names {
        list.add_ingredient(n.clone(), &cooklang::quantity::GroupedQuantity::empty(), &conv);
    }
    let cat = list.categorize(r);
    for n in names {
        let expect = r.categories.iter().find_map(|c| c.ingredients.iter().find(|i| i.names.contains(&n.as_str())).map(|i| (c.name, i.names[0])));
        match expect {
            Some((c, common)) => {
                let ok = cat.categories.get(c).map(|l| l.iter().any(|(k, _)| k == common)).unwrap_or(false);
                if !ok {
                    out.push(v("lookup", format!("categorize: {n:?} not listed under category {c:?} as {common:?}")));
                }
            }
            None => {
                if !cat.other.iter().any(|(k, _)| k == n) {
                    out.push(v("lookup", format!("categorize: unknown name {n:?} not under 'other'")));
                }
            }
        }
    }
}

/// W2/W3 for one faulty write of `conf` whose fault-free output is `golden`.
fn check_faulty_write(conf: &AisleConf, golden: &[u8], faults: &[WriteFault], out: &mut Vec<Violation>, st: &mut AisleStats) {
    let mut w = FaultyWriter::new(faults.to_vec(), false);
    let res = catch_unwind(AssertUnwindSafe(|| aisle::write(conf, &mut w)));
    for t in &w.fired_tags {
        *st.fired.entry(t.to_string()).or_insert(0) += 1;
    }
    let res = match res {
        Ok(r) => r,
        Err(p) => {
            let _ = crate::sim::take_last_panic();
            let injected = p.downcast_ref::<String>().map(|s| s.as_str() == crate::sim::INJECTED).unwrap_or(false) || p.downcast_ref::<&str>().map(|s| *s == crate::sim::INJECTED).unwrap_or(false);
            if !injected {
                out.push(v("hard-fault-mishandled", format!("aisle::write panicked under sink faults {faults:?}")));
                return;
            }
            // the SINK panicked and the caller caught it: what reached the sink is a prefix, and a
            // write of the same value afterwards gives the fault-free output (nothing the writer
            // held - a lock, a scratch buffer - may be left in the way)
            if !golden.starts_with(&w.accepted) {
                out.push(v("hard-fault-mishandled", format!("the sink panicked at a write call; it holds {:?}, which is not a prefix of the fault-free output", String::from_utf8_lossy(&w.accepted))));
            }
            match catch_unwind(AssertUnwindSafe(|| write_golden(conf))) {
                Ok(Ok((g2, _))) if g2 == golden => {}
                other => out.push(v("hard-fault-mishandled", format!("write after a write whose sink panicked differs from the fault-free output: {:?}", other.map(|r| r.map(|x| x.0.len())).map_err(|_| "panic")))),
            }
            return;
        }
    };
    match w.hard_error_at {
        // a flush that reported EINTR: the writer may retry (then everything must be there) or
        // hand the error back (then what is there must be a prefix, as after any error)
        None if w.flush_interrupted && res.as_ref().err().map(|e| e.kind()) == Some(std::io::ErrorKind::Interrupted) => {
            if !golden.starts_with(&w.accepted) {
                out.push(v("hard-fault-mishandled", format!("flush returned EINTR, write returned it, and the sink holds {:?}, which is not a prefix of the fault-free output {:?}", String::from_utf8_lossy(&w.accepted), String::from_utf8_lossy(golden))));
            }
            match write_golden(conf) {
                Ok((g2, _)) if g2 == golden => {}
                other => out.push(v("hard-fault-mishandled", format!("write after an interrupted flush differs from the fault-free output: {:?}", other.map(|x| x.0.len())))),
            }
        }
        // a long burst of EINTR (eight or more in this write): a writer with a bounded retry loop
        // may give up and hand Interrupted back - then, as after any error, a prefix must be there
        None if res.as_ref().err().map(|e| e.kind()) == Some(std::io::ErrorKind::Interrupted) && w.fired_tags.iter().filter(|t| **t == "eintr").count() >= 8 => {
            if !golden.starts_with(&w.accepted) {
                out.push(v("benign-fault-visible", format!("after a burst of EINTR write returned Interrupted and the sink holds {:?}, which is not a prefix of the fault-free output", String::from_utf8_lossy(&w.accepted))));
            }
        }
        None => {
            if res.is_err() || w.accepted != golden {
                out.push(v("benign-fault-visible", format!("faults {:?}: result {:?}, sink holds {} bytes {:?}, fault-free output is {} bytes {:?}", w.fired_tags, res.as_ref().map_err(|e| e.kind()), w.accepted.len(), String::from_utf8_lossy(&w.accepted), golden.len(), String::from_utf8_lossy(golden))));
            }
        }
        Some(c) => {
            // What the statement implies under a hard sink error, and no more: a write that reports
            // success must have delivered everything (a writer may legitimately retry WouldBlock or
            // any other error and succeed - the sink then holds the complete output); a write that
            // reports failure leaves a prefix of the fault-free output. Which error kind comes back,
            // and whether further write calls follow the error (a std BufWriter dropped after a
            // failed flush tries once more), is the writer's business.
            match &res {
                Ok(()) => {
                    if w.accepted != golden {
                        out.push(v("hard-fault-mishandled", format!("hard fault {:?} at write call {c}, write returned Ok, but the sink holds {} bytes {:?} instead of the {} bytes of the fault-free output {:?} (faults {:?})", w.hard_error_kind, w.accepted.len(), String::from_utf8_lossy(&w.accepted), golden.len(), String::from_utf8_lossy(golden), w.fired_tags)));
                    }
                }
                Err(e) => {
                    if !golden.starts_with(&w.accepted) {
                        out.push(v("hard-fault-mishandled", format!("hard fault {:?} at write call {c}: write returned {:?} and the sink holds {:?}, which is not a prefix of the fault-free output ({} write calls after the error)", w.hard_error_kind, e.kind(), String::from_utf8_lossy(&w.accepted), w.calls_after_error)));
                    }
                }
            }
            // once faults stop, a write of the same value gives the fault-free output
            match write_golden(conf) {
                Ok((g2, _)) if g2 == golden => {}
                other => out.push(v("hard-fault-mishandled", format!("write after a failed write differs from the fault-free output: {:?}", other.map(|x| x.0.len())))),
            }
        }
    }
}

/// `execute_inner` with every library panic turned into a violation
pub fn execute(sc: &AisleScenario) -> (Vec<Violation>, AisleStats) {
    match catch_unwind(AssertUnwindSafe(|| execute_inner(sc))) {
        Ok(r) => r,
        Err(p) => {
            let loc = crate::sim::take_last_panic().unwrap_or_default();
            let msg = p.downcast_ref::<&str>().map(|s| s.to_string()).or_else(|| p.downcast_ref::<String>().cloned()).unwrap_or_default();
            (vec![v("panic", format!("a library call panicked during the history on {:?}: {msg} ({loc})", sc.text))], AisleStats::default())
        }
    }
}

fn execute_inner(sc: &AisleScenario) -> (Vec<Violation>, AisleStats) {
    let mut out = Vec::new();
    let mut st = AisleStats::default();
    cooklang::verif_seam::reseed(sc.hash_seed);
    let text = sc.text.as_str();
    for p in &sc.prelude {
        if catch_unwind(AssertUnwindSafe(|| aisle::parse(p).is_ok())).is_err() {
            let _ = crate::sim::take_last_panic();
        }
    }
    // ---- P1
    let parsed = catch_unwind(AssertUnwindSafe(|| aisle::parse(text)));
    let parsed = match parsed {
        Err(p) => {
            let _ = crate::sim::take_last_panic();
            let msg = p.downcast_ref::<&str>().map(|s| s.to_string()).or_else(|| p.downcast_ref::<String>().cloned()).unwrap_or_default();
            out.push(v("parse-invariant", format!("aisle::parse panicked on {text:?}: {msg}")));
            return (out, st);
        }
        Ok(r) => r,
    };
    // parse is a function of the text: a second parse right away, and the first parse of the
    // same text seen earlier in this process (whatever ran in between), must agree
    {
        let fp = |r: &Result<AisleConf, AisleConfError>| match r {
            Ok(c) => format!("Ok {:?}", c.categories),
            Err(e) => format!("Err {e:?}"),
        };
        let first = fp(&parsed);
        match catch_unwind(AssertUnwindSafe(|| aisle::parse(text))) {
            Ok(again) => {
                let second = fp(&again);
                if second != first {
                    out.push(v("parse-nondeterministic", format!("two consecutive parses of {text:?} differ: {first} vs {second}")));
                    return (out, st);
                }
            }
            Err(_) => {
                let _ = crate::sim::take_last_panic();
                out.push(v("parse-nondeterministic", format!("the second of two consecutive parses of {text:?} panicked, the first returned {first}")));
                return (out, st);
            }
        }
        if text.len() <= 64 {
            let k = fnv(text.as_bytes());
            let h = fnv(first.as_bytes());
            let prev = SEEN_PARSES.with(|t| {
                let mut t = t.borrow_mut();
                if t.len() < 300_000 {
                    *t.entry(k).or_insert(h)
                } else {
                    t.get(&k).copied().unwrap_or(h)
                }
            });
            if prev != h {
                out.push(v("parse-nondeterministic", format!("parsing {text:?} now gives {first}, an earlier parse of the same text in this process gave something else (result hash {prev:016x})")));
                return (out, st);
            }
        }
    }
    // (lenient where the statement is silent and an implementation may reasonably differ from the
    // pinned one: a `|` inside a category header kept verbatim, and a byte order mark in front of
    // the file ignored)
    let model = model_parse(text)
        .or_else(|| if parsed.is_ok() { model_parse_with(text, false) } else { None })
        .or_else(|| if parsed.is_ok() { text.strip_prefix('\u{feff}').and_then(|t| model_parse(t).or_else(|| model_parse_with(t, false))) } else { None });
    let conf = match parsed {
        Err(e) => {
            st.parse_err = Some(format!("{e}"));
            let spans: Vec<cooklang::Span> = match &e {
                AisleConfError::Parse { span, .. } => vec![*span],
                AisleConfError::DuplicateCategory { first_span, second_span, .. } | AisleConfError::DuplicateIngredient { first_span, second_span, .. } => vec![*first_span, *second_span],
            };
            for s in spans {
                if !span_ok(text, s) {
                    out.push(v("parse-invariant", format!("error {e:?} has span {s:?} outside input of {} bytes / off a char boundary: {text:?}", text.len())));
                }
            }
            // the spans the error hands to renderers (RichError::labels) are spans of the error too
            {
                use cooklang::error::RichError;
                let labels = catch_unwind(AssertUnwindSafe(|| e.labels().iter().map(|l| l.0).collect::<Vec<cooklang::Span>>()));
                match labels {
                    Ok(ls) => {
                        for s in ls {
                            if !span_ok(text, s) {
                                out.push(v("parse-invariant", format!("error {e:?}: label span {s:?} (RichError::labels) lies outside the input of {} bytes / off a char boundary: {text:?}", text.len())));
                            }
                        }
                    }
                    Err(_) => {
                        let _ = crate::sim::take_last_panic();
                        out.push(v("parse-invariant", format!("RichError::labels() of {e:?} panicked for {text:?}")));
                    }
                }
                // rendering is much more expensive than parsing a short string: always for duplicate
                // errors (their spans come from two places), one in eight otherwise
                let render = !matches!(e, AisleConfError::Parse { .. }) || fnv(text.as_bytes()) % 8 == 0;
                let mut buf = Vec::new();
                if render && catch_unwind(AssertUnwindSafe(|| cooklang::error::write_rich_error(&e, "aisle.conf", text, false, &mut buf))).is_err() {
                    let _ = crate::sim::take_last_panic();
                    out.push(v("parse-invariant", format!("rendering the error {e:?} of {text:?} panicked (a span that does not select text of the input)")));
                }
            }
            return (out, st);
        }
        Ok(c) => c,
    };
    st.parsed_ok = true;
    st.categories = conf.categories.len();
    {
        let mut cats: Vec<&str> = Vec::new();
        let mut names: Vec<&str> = Vec::new();
        for c in &conf.categories {
            if cats.contains(&c.name) {
                out.push(v("parse-invariant", format!("category {:?} occurs twice in the result of {text:?}", c.name)));
            }
            cats.push(c.name);
            for i in &c.ingredients {
                for n in &i.names {
                    if names.contains(n) {
                        out.push(v("parse-invariant", format!("ingredient name {n:?} occurs twice in the result of {text:?}")));
                    }
                    names.push(n);
                    if *n != n.trim() {
                        out.push(v("parse-invariant", format!("ingredient name {n:?} is not trimmed ({text:?})")));
                    }
                }
            }
        }
        st.names = names.len();
    }
    match &model {
        Some(m) => {
            let got: Vec<(String, Vec<Vec<String>>)> = conf.categories.iter().map(|c| (c.name.trim().to_string(), c.ingredients.iter().map(|i| i.names.iter().map(|n| n.to_string()).collect()).collect())).collect();
            let want: Vec<(String, Vec<Vec<String>>)> = m.iter().map(|(c, l)| (c.trim().to_string(), l.clone())).collect();
            if got != want {
                out.push(v("parse-model", format!("result differs from the format model for {text:?}: got {got:?}, model {want:?}")));
            }
        }
        None => {
            // the model rejects (duplicate / no category / `|` in a category); an Ok
            // result must then have tripped one of the invariants above
            if out.is_empty() {
                out.push(v("parse-model", format!("parse accepted {text:?} which has a duplicate name/category, an ingredient before any category or a `|` in a category name: {:?}", conf.categories)));
            }
        }
    }
    if !out.is_empty() {
        return (out, st);
    }
    // ---- W1 on a fresh parse
    let (golden, calls) = match write_golden(&conf) {
        Ok(g) => g,
        Err(e) => {
            out.push(v("roundtrip", e));
            return (out, st);
        }
    };
    st.write_calls = calls;
    st.golden_len = golden.len();
    let gtext = match String::from_utf8(golden.clone()) {
        Ok(s) => s,
        Err(_) => {
            out.push(v("roundtrip", "written output is not UTF-8".into()));
            return (out, st);
        }
    };
    match catch_unwind(AssertUnwindSafe(|| aisle::parse(&gtext))) {
        Err(_) => out.push(v("roundtrip", format!("re-parsing the written output panicked: {gtext:?} (from {text:?})"))),
        Ok(Err(e)) => out.push(v("roundtrip", format!("written output does not parse: {e:?}; wrote {gtext:?} from {text:?}"))),
        Ok(Ok(c2)) => {
            if c2 != conf || c2.categories != conf.categories {
                out.push(v("roundtrip", format!("parse(write(c)) != c for {text:?}: wrote {gtext:?}, got {:?}, expected {:?}", c2.categories, conf.categories)));
            } else {
                match write_golden(&c2) {
                    Ok((g2, _)) if g2 == golden => {}
                    _ => out.push(v("roundtrip", format!("write(parse(write(c))) != write(c) for {text:?}"))),
                }
            }
        }
    }
    check_lookup(&conf, &mut out, &mut st);
    if !out.is_empty() {
        return (out, st);
    }
    // ---- replicas and histories
    let (Ok(mut a), Ok(mut b), Ok(fresh)) = (aisle::parse(text), aisle::parse(text), aisle::parse(text)) else {
        out.push(v("replica-divergence", format!("a second parse of {text:?} failed although the first succeeded")));
        return (out, st);
    };
    let other_text = sc.other_text.clone().unwrap_or_default();
    let mut c_conf: Option<AisleConf> = if sc.other_text.is_some() { aisle::parse(&other_text).ok() } else { None };
    let golden_c: Vec<u8> = c_conf.as_ref().and_then(|c| write_golden(c).ok()).map(|g| g.0).unwrap_or_default();
    // flatten the three histories into one sequence
    let mut seq: Vec<(u8, &AisleOp)> = Vec::new();
    {
        let lists = [&sc.ops_a, &sc.ops_b, &sc.ops_c];
        let mut next = [0usize; 3];
        for &t in &sc.order {
            let t = (t as usize).min(2);
            if let Some(op) = lists[t].get(next[t]) {
                seq.push((t as u8, op));
                next[t] += 1;
            }
        }
        for t in 0..3 {
            while let Some(op) = lists[t].get(next[t]) {
                seq.push((t as u8, op));
                next[t] += 1;
            }
        }
    }
    {
        for (which, op) in seq {
            if which == 2 && c_conf.is_none() {
                continue;
            }
            st.ops += 1;
            let golden: &Vec<u8> = if which == 2 { &golden_c } else { &golden };
            let r: &mut AisleConf = match which {
                0 => &mut a,
                1 => &mut b,
                _ => c_conf.as_mut().unwrap(),
            };
            match op {
                AisleOp::Lookup => check_lookup(r, &mut out, &mut st),
                AisleOp::Reverse => {
                    #[allow(deprecated)]
                    let rev = r.reverse();
                    let n: usize = r.categories.iter().map(|c| c.ingredients.iter().map(|i| i.names.len()).sum::<usize>()).sum();
                    if rev.len() != n {
                        out.push(v("lookup", format!("reverse() has {} entries for {} names", rev.len(), n)));
                    }
                    // documented as: each key is an ingredient and the value is its category
                    for c in &r.categories {
                        for i in &c.ingredients {
                            for name in &i.names {
                                if rev.get(name).copied() != Some(c.name) {
                                    out.push(v("lookup", format!("reverse()[{name:?}] is {:?}, its category is {:?}", rev.get(name), c.name)));
                                }
                            }
                        }
                    }
                }
                AisleOp::Categorize { names } => check_categorize(r, names, &mut out),
                AisleOp::CloneSwap => {
                    let c = r.clone();
                    if c != *r || c.categories != r.categories {
                        out.push(v("replica-divergence", "a clone is not equal to its source".into()));
                    }
                    *r = c;
                }
                AisleOp::Write { faults } => check_faulty_write(r, golden, faults, &mut out, &mut st),
                AisleOp::Reparse => {
                    if let Ok((g, _)) = write_golden(r) {
                        let t = String::from_utf8_lossy(&g).into_owned();
                        match aisle::parse(&t) {
                            Ok(c2) => {
                                if c2 != *r {
                                    out.push(v("roundtrip", format!("after a history of operations, parse(write(c)) != c (by ==) for {text:?}; categories equal: {}", c2.categories == r.categories)));
                                }
                            }
                            Err(e) => out.push(v("roundtrip", format!("after a history, written output does not parse: {e:?}"))),
                        }
                    }
                }
                AisleOp::Serde => {
                    let js = serde_json::to_string(r).unwrap_or_default();
                    match serde_json::from_str::<AisleConf>(&js) {
                        Ok(c2) => {
                            if c2 != *r {
                                out.push(v("replica-divergence", format!("serde round trip of a used configuration is not equal to it (categories equal: {})", c2.categories == r.categories)));
                            }
                        }
                        Err(_) => {} // borrowed strings with escapes cannot be deserialised zero-copy; not this property's business
                    }
                }
            }
        }
    }
    // ---- H1: replicas never diverge
    if a != b || a.categories != b.categories {
        out.push(v("replica-divergence", format!("two parses of {text:?} are unequal after histories {:?} / {:?} (categories equal: {})", sc.ops_a, sc.ops_b, a.categories == b.categories)));
    }
    if a != fresh || b != fresh || fresh != a || fresh != b {
        out.push(v("replica-divergence", format!("a replica is unequal to a fresh parse of the same text after its history ({:?} / {:?})", sc.ops_a, sc.ops_b)));
    }
    match (write_golden(&a), write_golden(&b)) {
        (Ok((ga, _)), Ok((gb, _))) if ga == golden && gb == golden => {}
        _ => out.push(v("replica-divergence", "write(A), write(B) and the fault-free output of a fresh parse differ after the histories".into())),
    }
    // the histories are over: every configuration still answers lookups correctly, also through
    // `IngredientList::categorize` (all of its names plus one that is in no category)
    {
        let mut names: Vec<String> = a.categories.iter().flat_map(|c| c.ingredients.iter().flat_map(|i| i.names.iter().map(|n| n.to_string()))).collect();
        names.push("in no category at all".into());
        names.sort();
        names.dedup();
        if names.len() <= 400 {
            check_categorize(&a, &names, &mut out);
        }
    }
    check_lookup(&a, &mut out, &mut st);
    check_lookup(&b, &mut out, &mut st);
    if let Some(c) = &c_conf {
        check_lookup(c, &mut out, &mut st);
        match write_golden(c) {
            Ok((g, _)) if g == golden_c => {}
            _ => out.push(v("replica-divergence", "the other configuration's output changed during the histories".into())),
        }
    }
    (out, st)
}

fn gen_write_faults(r: &mut Rng, calls: u32) -> Vec<WriteFault> {
    let mut f = Vec::new();
    let n = r.range(1, 4);
    let span = calls.max(1) + 3;
    let mut hard = false;
    for _ in 0..n {
        let call = r.below(span as usize) as u32;
        if f.iter().any(|x: &WriteFault| x.call() == call) {
            continue;
        }
        f.push(match r.below(9) {
            0..=2 => WriteFault::Short { call, n: if r.chance(1, 4) { r.range(3, 40) } else { r.range(1, 3) } as u32 },
            3..=4 => WriteFault::Eintr { call },
            5 if !hard => {
                hard = true;
                WriteFault::WouldBlock { call }
            }
            6 if !hard => {
                hard = true;
                WriteFault::IoErr { call, errkind: r.pick(&["StorageFull", "BrokenPipe", "Other", "PermissionDenied", "TimedOut"]).to_string() }
            }
            7 if !hard => {
                hard = true;
                if r.chance(1, 3) { WriteFault::Panic { call } } else { WriteFault::Zero { call } }
            }
            _ => WriteFault::Short { call, n: 1 },
        });
    }
    // sink modes and flush faults (they fire only if the writer flushes / writes vectored at all)
    if r.chance(1, 4) {
        f.push(WriteFault::Vectored);
    }
    if r.chance(1, 6) {
        f.push(WriteFault::FlushEintr { flush: r.below(2) as u32 });
    }
    if !hard && r.chance(1, 12) {
        f.push(WriteFault::FlushErr { flush: r.below(2) as u32, errkind: "StorageFull".to_string() });
    }
    f
}

pub fn gen_ops(r: &mut Rng, text: &str, calls: u32) -> Vec<AisleOp> {
    let n = *r.pick(&[0usize, 1, 1, 2, 2, 3, 4, 6, 6, 12, 40]);
    let mut ops = Vec::new();
    for _ in 0..n {
        ops.push(match r.below(10) {
            0 | 1 => AisleOp::Lookup,
            2 => AisleOp::Reverse,
            3 => {
                let mut names: Vec<String> = Vec::new();
                let toks: Vec<&str> = text.split(|c| c == '|' || c == '\n').map(|s| s.trim()).filter(|s| !s.is_empty()).collect();
                for _ in 0..r.range(1, 4) {
                    if !toks.is_empty() && r.chance(3, 4) {
                        names.push(r.pick(&toks).to_string());
                    } else {
                        names.push("unlisted thing".into());
                    }
                }
                names.sort();
                names.dedup();
                AisleOp::Categorize { names }
            }
            4 => AisleOp::CloneSwap,
            5 | 6 | 7 => AisleOp::Write { faults: gen_write_faults(r, calls) },
            8 => AisleOp::Reparse,
            _ => AisleOp::Serde,
        });
    }
    ops
}

pub fn gen_scenario(run_seed: u64) -> AisleScenario {
    let root = Rng::new(run_seed);
    let mut r = root.fork(1);
    let text = crate::gen::aisle_file(&mut r);
    // number of write calls of the fault-free output, to place faults where they fire
    let calls = catch_unwind(AssertUnwindSafe(|| aisle::parse(&text).ok().and_then(|c| write_golden(&c).ok()).map(|g| g.1))).ok().flatten().unwrap_or(4);
    let ops_a = gen_ops(&mut root.fork(2), &text, calls);
    let ops_b = gen_ops(&mut root.fork(3), &text, calls);
    {
        let mut r5 = root.fork(5);
        let (other_text, ops_c, order) = if r5.chance(1, 3) {
            let t = crate::gen::aisle_file(&mut r5);
            let ops_c = gen_ops(&mut root.fork(6), &t, 6);
            let n = ops_a.len() + ops_b.len() + ops_c.len();
            let order: Vec<u8> = (0..n).map(|_| r5.below(3) as u8).collect();
            (Some(t), ops_c, order)
        } else if r5.chance(1, 2) {
            let n = ops_a.len() + ops_b.len();
            (None, vec![], (0..n).map(|_| r5.below(2) as u8).collect())
        } else {
            (None, vec![], vec![])
        };
        // the same file a moment ago: earlier versions of `text` parsed right before it (a third of
        // the large files, a twentieth of the others)
        let mut r7 = root.fork(7);
        let mut prelude = Vec::new();
        if !text.is_empty() && r7.chance(1, if text.len() >= 2048 { 3 } else { 20 }) {
            for _ in 0..r7.range(1, 2) {
                let cut = |at: usize| {
                    let mut at = at.min(text.len());
                    while !text.is_char_boundary(at) {
                        at -= 1;
                    }
                    text[..at].to_string()
                };
                prelude.push(match r7.below(6) {
                    0 | 1 => cut(r7.below(text.len() + 1)),
                    2 => cut(text.len() - 1 - r7.below(text.len().min(40))),
                    3 => text.trim_end().to_string(),
                    4 => format!("{text}{}", r7.pick_str(&["x", "\nx", "|y", " // c", "\n[z]\n"])),
                    _ => text.clone(),
                });
            }
        }
        AisleScenario { text, hash_seed: root.fork(4).next_u64(), ops_a, ops_b, other_text, ops_c, order, prelude }
    }
}

/// Every write call × every hard kind, every split point of every call, and EINTR
/// before every call, for one configuration (the enumerated part of C11).
pub fn enumerate_write_faults(text: &str) -> Vec<AisleScenario> {
    let mut v = Vec::new();
    let base = AisleScenario { text: text.to_string(), hash_seed: 1, ops_a: vec![AisleOp::Lookup, AisleOp::Reparse], ops_b: vec![AisleOp::Reparse], other_text: None, ops_c: vec![], order: vec![], prelude: vec![] };
    v.push(base);
    let Ok(Ok(conf)) = catch_unwind(AssertUnwindSafe(|| aisle::parse(text))) else { return v };
    let mut w = FaultyWriter::new(vec![], false);
    if aisle::write(&conf, &mut w).is_err() {
        return v;
    }
    let _ = w.calls;
    // call boundaries: re-run with a recording writer to learn each call's length, how often the
    // writer flushes and whether it writes vectored (then everything is enumerated a second time
    // for a sink that takes all slices of a vectored write at once)
    struct Rec {
        lens: Vec<usize>,
        flushes: u32,
        vectored_used: bool,
        vectored_mode: bool,
    }
    impl std::io::Write for Rec {
        fn write(&mut self, b: &[u8]) -> std::io::Result<usize> {
            self.lens.push(b.len());
            Ok(b.len())
        }
        fn write_vectored(&mut self, bufs: &[std::io::IoSlice<'_>]) -> std::io::Result<usize> {
            self.vectored_used = true;
            if self.vectored_mode {
                let n = bufs.iter().map(|b| b.len()).sum();
                self.write(&vec![0u8; n])
            } else {
                let buf = bufs.iter().find(|b| !b.is_empty()).map_or(&[][..], |b| &**b);
                self.write(buf)
            }
        }
        fn flush(&mut self) -> std::io::Result<()> {
            self.flushes += 1;
            Ok(())
        }
    }
    let mk = |faults: Vec<WriteFault>| AisleScenario { text: text.to_string(), hash_seed: 1, ops_a: vec![AisleOp::Lookup, AisleOp::Write { faults }, AisleOp::Reparse], ops_b: vec![], other_text: None, ops_c: vec![], order: vec![], prelude: vec![] };
    let mut vectored_used = false;
    for vectored_mode in [false, true] {
        if vectored_mode && !vectored_used {
            break;
        }
        let mut rec = Rec { lens: Vec::new(), flushes: 0, vectored_used: false, vectored_mode };
        let _ = aisle::write(&conf, &mut rec);
        vectored_used = rec.vectored_used;
        let with_mode = |mut f: Vec<WriteFault>| {
            if vectored_mode {
                f.push(WriteFault::Vectored);
            }
            f
        };
        for c in 0..rec.lens.len() as u32 {
            v.push(mk(with_mode(vec![WriteFault::WouldBlock { call: c }])));
            v.push(mk(with_mode(vec![WriteFault::Zero { call: c }])));
            v.push(mk(with_mode(vec![WriteFault::IoErr { call: c, errkind: "StorageFull".into() }])));
            v.push(mk(with_mode(vec![WriteFault::Eintr { call: c }])));
            v.push(mk(with_mode(vec![WriteFault::Panic { call: c }])));
            let len = rec.lens.get(c as usize).copied().unwrap_or(1);
            for n in 1..len {
                v.push(mk(with_mode(vec![WriteFault::Short { call: c, n: n as u32 }])));
            }
            // a short write followed by a second fault on the retry of the rest: every kind, after
            // 1 byte, half of the call and all but one byte (a writer that retries transient errors
            // must resume where the sink stopped, not where the call began)
            if len > 1 {
                let mut ns = vec![1usize, len / 2, len - 1];
                ns.dedup();
                for n in ns {
                    let n = n.max(1) as u32;
                    v.push(mk(with_mode(vec![WriteFault::Short { call: c, n }, WriteFault::IoErr { call: c + 1, errkind: "BrokenPipe".into() }])));
                    v.push(mk(with_mode(vec![WriteFault::Short { call: c, n }, WriteFault::WouldBlock { call: c + 1 }])));
                    v.push(mk(with_mode(vec![WriteFault::Short { call: c, n }, WriteFault::Zero { call: c + 1 }])));
                    v.push(mk(with_mode(vec![WriteFault::Short { call: c, n }, WriteFault::Eintr { call: c + 1 }])));
                    v.push(mk(with_mode(vec![WriteFault::Short { call: c, n }, WriteFault::Eintr { call: c + 1 }, WriteFault::WouldBlock { call: c + 2 }])));
                }
                v.push(mk(with_mode(vec![WriteFault::Eintr { call: c }, WriteFault::Short { call: c + 1, n: 1 }, WriteFault::Eintr { call: c + 2 }])));
            }
            // faults in a row: two, and more than any sane retry bound
            v.push(mk(with_mode(vec![WriteFault::WouldBlock { call: c }, WriteFault::WouldBlock { call: c + 1 }])));
            v.push(mk(with_mode(vec![WriteFault::Eintr { call: c }, WriteFault::Eintr { call: c + 1 }, WriteFault::Eintr { call: c + 2 }])));
            v.push(mk(with_mode(vec![WriteFault::Eintr { call: c }, WriteFault::WouldBlock { call: c + 1 }])));
            v.push(mk(with_mode(vec![WriteFault::WouldBlock { call: c }, WriteFault::IoErr { call: c + 1, errkind: "StorageFull".into() }])));
            if c % 7 == 0 {
                v.push(mk(with_mode((0..40).map(|k| WriteFault::WouldBlock { call: c + k }).collect())));
                v.push(mk(with_mode((0..40).map(|k| WriteFault::Eintr { call: c + k }).collect())));
            }
        }
        for fl in 0..rec.flushes {
            v.push(mk(with_mode(vec![WriteFault::FlushEintr { flush: fl }])));
            v.push(mk(with_mode(vec![WriteFault::FlushEintr { flush: fl }, WriteFault::FlushEintr { flush: fl + 1 }])));
            v.push(mk(with_mode(vec![WriteFault::FlushErr { flush: fl, errkind: "StorageFull".into() }])));
            // an interrupted flush after a short last write
            if let Some(last) = rec.lens.len().checked_sub(1) {
                v.push(mk(with_mode(vec![WriteFault::Short { call: last as u32, n: 1 }, WriteFault::FlushEintr { flush: fl }])));
            }
        }
    }
    v
}

#[derive(Default, Serialize)]
struct WorkerOut {
    property: String,
    /// names offered as "chances" by the birthday-sampling mode
    collide_names: u64,
    runs: u64,
    executions: u64,
    parsed_ok: u64,
    parse_err: u64,
    err_kinds: BTreeMap<String, u64>,
    ops: u64,
    lookups_checked: u64,
    fired: BTreeMap<String, u64>,
    enumerated_fault_points: u64,
    enumerated_dup_positions: u64,
    exhaustive_strings: u64,
    nontrivial_hashes: Vec<u64>,
    violations: Vec<serde_json::Value>,
    samples: Vec<serde_json::Value>,
    wall_s: f64,
}

fn absorb(out: &mut WorkerOut, sc: &AisleScenario, st: &AisleStats, viol: &[Violation], a: &Args, prov: Option<Provenance>, replay_dir: &str, tag: &str) {
    out.executions += 1;
    if st.parsed_ok {
        out.parsed_ok += 1;
    } else if let Some(e) = &st.parse_err {
        out.parse_err += 1;
        let k = e.split(':').next().unwrap_or("").to_string();
        *out.err_kinds.entry(k).or_insert(0) += 1;
    }
    out.ops += st.ops;
    out.lookups_checked += st.lookups_checked;
    for (k, n) in &st.fired {
        *out.fired.entry(k.clone()).or_insert(0) += n;
    }
    // non-trivial: a fault fired, or a history of >= 2 ops ran on a parsed configuration
    if !st.fired.is_empty() || (st.parsed_ok && st.ops >= 2) {
        out.nontrivial_hashes.push(fnv(serde_json::to_string(sc).unwrap().as_bytes()));
    }
    if !viol.is_empty() {
        let rf = ReplayFile {
            property: "C11".into(),
            class: viol[0].class.clone(),
            provenance: prov,
            prefix_run_indexes: vec![],
            scenario: None,
            sched: None,
            aisle: Some(sc.clone()),
            depth: None,
        storm: None,
            violations: viol.to_vec(),
            minimised: false,
            notes: vec![],
        };
        let p = write_replay(replay_dir, &format!("C11-{tag}"), &rf);
        out.violations.push(serde_json::json!({"class": rf.class, "replay": p, "detail": viol[0].detail, "text": sc.text}));
    }
    let _ = a;
}

pub fn worker(a: &Args) -> i32 {
    let t0 = std::time::Instant::now();
    let seed = a.u64("seed", 1);
    let salt = a.u64("salt", 11);
    let runs = a.u64("runs", 1000);
    let worker = a.u64("worker", 0);
    let workers = a.u64("workers", 1).max(1);
    let out_path = a.str("out", "");
    let replay_dir = a.str("replay-dir", "/verif/replays");
    let max_viol = a.u64("max-violations", 5) as usize;
    let mode = a.str("mode", "random");
    let mut out = WorkerOut { property: "C11".into(), ..Default::default() };
    match mode.as_str() {
        "random" => {
            let mut i = worker;
            while i < runs {
                let rs = mix3(seed, salt, i);
                let sc = gen_scenario(rs);
                let (viol, st) = execute(&sc);
                out.runs += 1;
                if out.samples.len() < 2 && st.parsed_ok && st.ops > 0 {
                    out.samples.push(serde_json::json!({"run_index": i, "run_seed": rs, "scenario": &sc}));
                }
                let prov = Provenance { verif_seed: seed, salt, run_index: i, run_seed: rs, worker, workers, sched_index: 0, scheds: None };
                absorb(&mut out, &sc, &st, &viol, a, Some(prov), &replay_dir, &format!("{rs:016x}"));
                if out.violations.len() >= max_viol {
                    break;
                }
                i += workers;
            }
        }
        // every fault position of every write call for a set of configurations
        "enum-faults" => {
            let mut files: Vec<String> = crate::gen::AISLE_UNIT_FILES.iter().map(|s| s.to_string()).collect();
            for k in 0..runs {
                let mut r = Rng::new(mix3(seed, salt ^ 0xE, k));
                files.push(crate::gen::aisle_structured(&mut r));
            }
            // alignment sweep: the first name grows byte by byte, so that whatever fixed-size
            // buffer or chunk a writer uses fills up exactly at the end of a name, of a line, of
            // a header ... for some k (with a multi-byte name and an empty trailing synonym mixed in)
            let sweep: Vec<usize> = if runs >= 1000 {
                (1..=1100).chain(4080..=4104).chain(8176..=8200).collect()
            } else {
                // (the sizes of common stack and heap buffers, with their neighbours, also in the quick tier)
                (1..=140).chain([255, 256, 257, 511, 512, 513, 1023, 1024, 1025, 2048, 4095, 4096, 4097, 8191, 8192, 8193]).collect()
            };
            for k in sweep {
                let first: String = "x".repeat(k);
                files.push(match k % 3 {
                    0 => format!("[c]\n{first}|second|third\n[d]\nlast\n"),
                    1 => format!("[c]\n{first}|é|\n\n[]\n"),
                    _ => format!("[{first}]\na|b\nc\n"),
                });
            }
            for (fi, text) in files.iter().enumerate() {
                if fi as u64 % workers != worker {
                    continue;
                }
                out.runs += 1;
                for (si, sc) in enumerate_write_faults(text).iter().enumerate() {
                    let (viol, st) = execute(sc);
                    out.enumerated_fault_points += 1;
                    if out.samples.len() < 2 && si == 3 {
                        out.samples.push(serde_json::json!({"file_index": fi, "scenario": sc}));
                    }
                    absorb(&mut out, sc, &st, &viol, a, None, &replay_dir, &format!("enum-{fi}-{si}"));
                    if out.violations.len() >= max_viol {
                        break;
                    }
                }
                if out.violations.len() >= max_viol {
                    break;
                }
            }
        }
        // every position of a single duplicate in files of growing size: the p-th name (or
        // category) repeats an earlier one, for every p. Data-structure thresholds in duplicate
        // detection (small-set optimisations, spills, rehashes) sit at particular positions.
        "enum-dups" => {
            let sizes: Vec<usize> = if runs >= 1000 { vec![3, 9, 17, 33, 40, 65, 100, 129, 200, 300, 520, 1030] } else { vec![3, 9, 17, 33, 40, 65, 100, 129] };
            let mut k = 0u64;
            for (zi, &n) in sizes.iter().enumerate() {
                for variant in 0..4u64 {
                    // variant: 0 names one per line, 1 names as synonyms (several per line), 2 categories, 3 mixed
                    for p in 1..n {
                        k += 1;
                        if k % workers != worker {
                            continue;
                        }
                        let mut r = Rng::new(mix3(seed, 0xD0B5 + variant, (zi * 100_000 + p) as u64));
                        let q = r.below(p);
                        let name = |i: usize| if i == p { format!("n{q}") } else { format!("n{i}") };
                        let mut text = String::new();
                        match variant {
                            2 => {
                                for i in 0..n {
                                    text.push_str(&format!("[{}]\n", name(i)));
                                }
                            }
                            _ => {
                                text.push_str("[c0]\n");
                                let mut i = 0;
                                let mut cat = 0;
                                while i < n {
                                    let per_line = match variant { 0 => 1, 1 => 1 + r.below(6), _ => 1 + r.below(3) };
                                    let mut line = Vec::new();
                                    for _ in 0..per_line {
                                        if i < n {
                                            line.push(name(i));
                                            i += 1;
                                        }
                                    }
                                    text.push_str(&line.join("|"));
                                    text.push('\n');
                                    if variant == 3 && r.chance(1, 5) {
                                        cat += 1;
                                        text.push_str(&format!("[c{cat}]\n"));
                                    }
                                }
                            }
                        }
                        let sc = AisleScenario { text, hash_seed: k, ops_a: vec![], ops_b: vec![], other_text: None, ops_c: vec![], order: vec![], prelude: vec![] };
                        let (viol, st) = execute(&sc);
                        out.runs += 1;
                        out.enumerated_dup_positions += 1;
                        if out.samples.is_empty() && n == 9 && p == 5 {
                            out.samples.push(serde_json::json!({"size": n, "duplicate_at": p, "of": q, "variant": variant, "scenario": &sc}));
                        }
                        absorb(&mut out, &sc, &st, &viol, a, None, &replay_dir, &format!("dup-{n}-{variant}-{p}"));
                        if out.violations.len() >= max_viol {
                            break;
                        }
                    }
                    if out.violations.len() >= max_viol {
                        break;
                    }
                }
                if out.violations.len() >= max_viol {
                    break;
                }
            }
        }
        // ... and the complementary sweep: the LAST name (or category) of a file of N repeats the
        // q-th one, for every q. `enum-dups` fixes the position of the second occurrence and draws
        // the first at random; a structure that loses exactly the k-th name it was given (a spill,
        // a migration, a rehash) needs the FIRST occurrence at k. Checked directly (accepted =
        // violation; the accepted file then goes through `execute` for the record).
        "enum-first" => {
            let sizes: Vec<usize> = if runs >= 1000 { vec![40, 300, 1100, 4200] } else { vec![40, 300, 600] };
            let mut k = 0u64;
            'sizes: for &n in &sizes {
                for variant in 0..3u64 {
                    let build = |q: usize| -> String {
                        let mut t = String::with_capacity(n * 8 + 16);
                        match variant {
                            2 => {
                                for i in 0..n {
                                    t.push_str(&format!("[c{i}]\n"));
                                }
                                t.push_str(&format!("[c{q}]\n"));
                            }
                            _ => {
                                t.push_str("[c]\n");
                                for i in 0..n {
                                    t.push_str(&format!("n{i}"));
                                    t.push(if variant == 1 && i % 5 != 4 { '|' } else { '\n' });
                                }
                                if !t.ends_with('\n') {
                                    t.push('\n');
                                }
                                t.push_str(&format!("[d]\nn{q}\n"));
                            }
                        }
                        t
                    };
                    for q in 0..n {
                        k += 1;
                        if k % workers != worker {
                            continue;
                        }
                        let text = build(q);
                        out.runs += 1;
                        out.enumerated_dup_positions += 1;
                        cooklang::verif_seam::reseed(k);
                        let accepted = matches!(catch_unwind(AssertUnwindSafe(|| aisle::parse(&text).is_ok())), Ok(true));
                        if !accepted && !(n == 40) {
                            continue;
                        }
                        // (small files always go through the full oracle, which also checks the error's spans)
                        let sc = AisleScenario { text, hash_seed: k, ops_a: vec![AisleOp::Lookup], ops_b: vec![], other_text: None, ops_c: vec![], order: vec![], prelude: vec![] };
                        let (viol, st) = execute(&sc);
                        if out.samples.is_empty() && n == 40 && q == 7 {
                            out.samples.push(serde_json::json!({"size": n, "last_repeats": q, "variant": variant, "scenario": &sc}));
                        }
                        absorb(&mut out, &sc, &st, &viol, a, None, &replay_dir, &format!("first-{n}-{variant}-{q}"));
                        if out.violations.len() >= max_viol {
                            break 'sizes;
                        }
                    }
                }
            }
        }
        // the other axis of the same idea: ONE duplicate (or one near-duplicate, which is not one)
        // among names of every byte length. Thresholds in duplicate detection, interning, inline
        // buffers and bit masks sit at particular *lengths* (15/16, 22/23, 31/32, 63/64, 127/128,
        // 255/256, 4096, 65535/65536 ...), which neither short exhaustive strings nor dictionary
        // names ever reach.
        "enum-lens" => {
            let mut lens: Vec<usize> = (1..=130).collect();
            if runs < 1000 {
                // sizes of common buffers and their neighbours, also in the quick tier
                lens.extend([255usize, 256, 257, 511, 512, 513, 1023, 1024, 1025, 4095, 4096, 4097, 8191, 8192, 8193, 65535, 65536, 65537]);
            }
            if runs >= 1000 {
                lens.extend(131..=300);
                for b in [511usize, 512, 513, 1023, 1024, 1025, 2047, 2048, 2049, 4095, 4096, 4097, 8191, 8192, 8193, 16384, 32767, 32768, 65535, 65536, 65537] {
                    lens.push(b);
                }
            }
            // name i of exactly `len` bytes: a distinguishing head, then filler
            let name = |i: usize, len: usize, filler: &str| -> String {
                let mut s = String::new();
                s.push((b'a' + (i % 26) as u8) as char);
                while s.len() + filler.len() <= len {
                    s.push_str(filler);
                }
                while s.len() < len {
                    s.push('y');
                }
                s
            };
            let mut k = 0u64;
            'outer: for &len in &lens {
                for variant in 0..16u64 {
                    k += 1;
                    if k % workers != worker {
                        continue;
                    }
                    // fillers of 1, 2, 3 and 4 bytes: whatever cuts or measures a name at a fixed
                    // byte offset lands inside a character for some of them
                    let filler = match variant {
                        6 | 7 | 9 | 12 | 13 => "\u{e9}",
                        10 | 14 => "\u{20ac}",
                        11 | 15 => "\u{1f345}",
                        _ => "x",
                    };
                    let (mut a0, b0) = (name(0, len, filler), name(1, len, filler));
                    if matches!(variant, 12 | 15) && len > 2 {
                        // a two-byte ASCII head shifts every character boundary by one
                        a0 = format!("a{}", name(0, len - 1, filler));
                    }
                    // same head, different tail / middle (NOT duplicates of a0)
                    let mut tail = a0.clone();
                    if tail.pop().is_some() {
                        while tail.len() < len.saturating_sub(1) {
                            tail.push('y');
                        }
                        tail.push('z');
                    }
                    let mut mid: Vec<char> = a0.chars().collect();
                    let m = mid.len() / 2;
                    if m > 0 {
                        mid[m] = if mid[m] == 'q' { 'r' } else { 'q' };
                    }
                    let mid: String = mid.into_iter().collect();
                    let text = match variant {
                        0 | 6 | 14 => format!("[c0]\n{a0}\n{b0}\n{a0}\n"),
                        1 => format!("[c0]\n{a0}|{b0}\n[c1]\n{b0}2|{a0}\n"),
                        2 | 7 | 15 => format!("[{a0}]\nk\n[{b0}]\n[{a0}]\n"),
                        // the other error paths with a long offending token: `|` inside a header,
                        // an ingredient line before any category
                        8..=12 => format!("[{a0}|b]\nk\n"),
                        13 => format!("{a0}|{b0}\n[c]\nk\n"),
                        3 => format!("[c0]\n{a0}\n{tail}\n{mid}\n{b0}\n"),
                        4 => format!("[{a0}]\n[{tail}]\nk\n[{mid}]\n"),
                        // a name equal to a category name is not a duplicate
                        _ => format!("[{a0}]\n{a0}|{b0}\n[{b0}]\n{tail}\n"),
                    };
                    let sc = AisleScenario { text, hash_seed: k, ops_a: vec![AisleOp::Lookup, AisleOp::Reparse], ops_b: vec![], other_text: None, ops_c: vec![], order: vec![], prelude: vec![] };
                    let (viol, st) = execute(&sc);
                    out.runs += 1;
                    out.enumerated_dup_positions += 1;
                    if out.samples.is_empty() && len == 5 && variant == 3 {
                        out.samples.push(serde_json::json!({"name_bytes": len, "variant": variant, "scenario": &sc}));
                    }
                    absorb(&mut out, &sc, &st, &viol, a, None, &replay_dir, &format!("len-{len}-{variant}"));
                    if out.violations.len() >= max_viol {
                        break 'outer;
                    }
                }
            }
        }
        // birthday sampling: `A`, then a block of N distinct names, then `A` again must be rejected
        // whatever the block contains. A duplicate table keyed by a short fingerprint of the name
        // (a truncated or home-made hash) forgets `A` when some name of the block shares its
        // fingerprint; every name of the block is one chance in 2^bits, so --runs files of --names
        // names reach fingerprints of about log2(runs * names) bits. The file is too large for
        // the scenario machinery (and for the quadratic reference reading), so it is checked
        // directly, bisected to the one colliding name, and only that 3-name file goes through
        // `execute` and into a replay file.
        "collide" => {
            let per_file = a.u64("names", 1_000_000) as usize;
            let mut k = 0u64;
            for f in 0..runs {
                k += 1;
                if k % workers != worker {
                    continue;
                }
                let mut r = Rng::new(mix3(seed, 0xC011_1DE, f));
                let name = |j: usize, h: u64| -> String {
                    // distinct by construction (the index is part of the name), varied in every byte
                    const A: &[u8] = b"abcdefghijklmnopqrstuvwxyz ";
                    let mut s = String::new();
                    let mut x = j;
                    loop {
                        s.push(A[x % 26] as char);
                        x /= 26;
                        if x == 0 {
                            break;
                        }
                    }
                    let mut h = h;
                    for _ in 0..(3 + h % 6) {
                        h = h.wrapping_mul(6364136223846793005).wrapping_add(1442695040888963407);
                        s.push(A[((h >> 33) % 27) as usize] as char);
                    }
                    s.push('z');
                    s
                };
                let first = name(0, r.next_u64());
                let block: Vec<String> = (1..=per_file).map(|j| name(j, r.next_u64())).collect();
                let build = |lo: usize, hi: usize| -> String {
                    let mut t = String::with_capacity(16 + (hi - lo) * 12);
                    t.push_str("[c]\n");
                    t.push_str(&first);
                    t.push('\n');
                    for n in &block[lo..hi] {
                        t.push_str(n);
                        t.push('\n');
                    }
                    t.push_str(&first);
                    t.push('\n');
                    t
                };
                let accepted = |t: &str| matches!(catch_unwind(AssertUnwindSafe(|| aisle::parse(t).is_ok())), Ok(true));
                out.runs += 1;
                out.collide_names += per_file as u64;
                cooklang::verif_seam::reseed(f);
                if !accepted(&build(0, per_file)) {
                    continue;
                }
                // some name of the block made the parser forget `first`: find it
                let (mut lo, mut hi) = (0usize, per_file);
                while hi - lo > 1 {
                    let mid = (lo + hi) / 2;
                    if accepted(&build(lo, mid)) {
                        hi = mid;
                    } else if accepted(&build(mid, hi)) {
                        lo = mid;
                    } else {
                        break; // needs names from both halves: keep the whole range
                    }
                }
                let text = build(lo, hi.min(lo + 64));
                let sc = AisleScenario { text, hash_seed: f, ops_a: vec![AisleOp::Lookup], ops_b: vec![], other_text: None, ops_c: vec![], order: vec![], prelude: vec![] };
                let (viol, st) = execute(&sc);
                absorb(&mut out, &sc, &st, &viol, a, None, &replay_dir, &format!("collide-{f}"));
                if out.violations.len() >= max_viol {
                    break;
                }
            }
        }
        // every string over the alphabet up to --len symbols
        "exhaustive" => {
            let maxlen = a.u64("len", 6) as usize;
            // "dict": the structural symbols plus the non-ASCII / unusual tokens found in the source of
            // src/aisle.rs that the fixed alphabets do not contain (at most 6 of them)
            let dict_tokens: Vec<String> = {
                let base = ["[", "]", "|", "/", "//", "\n", " ", "a", "b", "A", "\u{a0}", "\r\n", "\r", "\t"];
                crate::dict::get().aisle.iter().filter(|t| !base.contains(&t.as_str()) && t.chars().count() <= 2 && !t.chars().all(|c| c.is_ascii_alphanumeric())).take(6).cloned().collect()
            };
            let alpha: Vec<&str> = match a.str("alphabet", "ascii7").as_str() {
                "dict" => {
                    let mut v = vec!["[", "]", "|", "\n", "a"];
                    v.extend(dict_tokens.iter().map(|s| s.as_str()));
                    v
                }
                "ascii7" => vec!["[", "]", "|", "/", "\n", " ", "a"],
                "wide" => vec!["[", "]", "|", "//", "\n", " ", "a", "b", "\u{a0}", "\r\n", "A"],
                _ => die("unknown alphabet"),
            };
            let k = alpha.len() as u64;
            let mut idx = 0u64;
            // every string, and every string of up to maxlen - 2 symbols once more behind a byte
            // order mark (what editors put in front of a file)
            for (prefix, upto) in [("", maxlen), ("\u{feff}", maxlen.saturating_sub(2))] {
            for len in 0..=upto {
                if !prefix.is_empty() && len == 0 {
                    continue;
                }
                let total = k.pow(len as u32);
                for code in 0..total {
                    idx += 1;
                    if idx % workers != worker {
                        continue;
                    }
                    let mut s = String::from(prefix);
                    let mut c = code;
                    for _ in 0..len {
                        s.push_str(alpha[(c % k) as usize]);
                        c /= k;
                    }
                    let sc = AisleScenario { text: s, hash_seed: idx, ops_a: vec![AisleOp::Lookup, AisleOp::Reparse], ops_b: vec![], other_text: None, ops_c: vec![], order: vec![], prelude: vec![] };
                    let (viol, st) = execute(&sc);
                    out.exhaustive_strings += 1;
                    out.runs += 1;
                    if out.samples.len() < 2 && st.parsed_ok && st.names >= 2 {
                        out.samples.push(serde_json::json!({"string_index": idx, "scenario": &sc}));
                    }
                    absorb(&mut out, &sc, &st, &viol, a, None, &replay_dir, &format!("exh-{idx}"));
                    if out.violations.len() >= max_viol {
                        break;
                    }
                }
                if out.violations.len() >= max_viol {
                    break;
                }
            }
            }
        }
        _ => die("unknown --mode"),
    }
    out.wall_s = t0.elapsed().as_secs_f64();
    if !out_path.is_empty() {
        crate::write_hashes(&out_path, "nontrivial", &out.nontrivial_hashes);
        out.nontrivial_hashes.clear();
    }
    let js = serde_json::to_string(&out).unwrap();
    if out_path.is_empty() {
        println!("{js}");
    } else {
        std::fs::write(&out_path, js).unwrap_or_else(|e| die(&format!("{out_path}: {e}")));
    }
    if out.violations.is_empty() {
        0
    } else {
        1
    }
}
