//! SplitMix64. One integer decides everything: every choice of a run is drawn
//! from generators derived from the run seed with fixed labels.

#[derive(Clone, Debug)]
pub struct Rng(u64);

pub fn mix2(a: u64, b: u64) -> u64 {
    let mut r = Rng(a ^ b.wrapping_mul(0x9E37_79B9_7F4A_7C15).rotate_left(17));
    r.next_u64();
    r.next_u64()
}

pub fn mix3(a: u64, b: u64, c: u64) -> u64 {
    mix2(mix2(a, b), c)
}

/// FNV-1a, used for all harness-side hashing (never `DefaultHasher`, whose keys
/// are fixed today but not promised).
pub fn fnv(bytes: &[u8]) -> u64 {
    let mut h: u64 = 0xcbf2_9ce4_8422_2325;
    for b in bytes {
        h = (h ^ *b as u64).wrapping_mul(0x0000_0100_0000_01b3);
    }
    // finalise so that short strings spread
    let mut z = h;
    z ^= z >> 30;
    z = z.wrapping_mul(0xBF58_476D_1CE4_E5B9);
    z ^= z >> 27;
    z = z.wrapping_mul(0x94D0_49BB_1331_11EB);
    z ^ (z >> 31)
}

pub fn roll(h: u64, x: u64) -> u64 {
    (h ^ x).wrapping_mul(0x0000_0100_0000_01b3).rotate_left(23) ^ x.rotate_left(7)
}

impl Rng {
    pub fn new(seed: u64) -> Self {
        Rng(seed)
    }

    /// Independent sub-stream
    pub fn fork(&self, label: u64) -> Rng {
        Rng(mix2(self.0, label))
    }

    pub fn next_u64(&mut self) -> u64 {
        self.0 = self.0.wrapping_add(0x9E37_79B9_7F4A_7C15);
        let mut z = self.0;
        z = (z ^ (z >> 30)).wrapping_mul(0xBF58_476D_1CE4_E5B9);
        z = (z ^ (z >> 27)).wrapping_mul(0x94D0_49BB_1331_11EB);
        z ^ (z >> 31)
    }

    /// uniform in 0..n (n > 0)
    pub fn below(&mut self, n: usize) -> usize {
        debug_assert!(n > 0);
        ((self.next_u64() >> 11) % (n as u64)) as usize
    }

    /// uniform in lo..=hi
    pub fn range(&mut self, lo: usize, hi: usize) -> usize {
        lo + self.below(hi - lo + 1)
    }

    pub fn chance(&mut self, num: u32, den: u32) -> bool {
        (self.below(den as usize) as u32) < num
    }

    pub fn pick<'a, T>(&mut self, xs: &'a [T]) -> &'a T {
        &xs[self.below(xs.len())]
    }

    pub fn pick_str<'a>(&mut self, xs: &[&'a str]) -> &'a str {
        xs[self.below(xs.len())]
    }

    pub fn f64(&mut self) -> f64 {
        (self.next_u64() >> 11) as f64 / (1u64 << 53) as f64
    }
}
