//! C18: parsing is deterministic, stateless across calls and thread-safe.
//! Operations, fingerprints, oracles O1/O2 and the three-phase execution
//! (reference → perturbed under shuttle → post-fault sequential).

use std::cell::RefCell;
use std::collections::{BTreeMap, HashMap};
use std::panic::{catch_unwind, AssertUnwindSafe};
use std::sync::Arc;

use cooklang::analysis::{self, CheckResult, ParseOptions};
use cooklang::convert::System;
use cooklang::parser::PullParser;
use cooklang::{Converter, CooklangParser, Extensions};

use crate::rng::fnv;
use crate::scenario::*;
use crate::sim::{self, OpCtx, SchedSpec, SeamAction, SeamFault, SeamKind, SimScheduler, Violation};

// ---------------------------------------------------------------------------
// parsers

thread_local! {
    static TEMPLATES: RefCell<HashMap<ParserCfg, CooklangParser>> = RefCell::new(HashMap::new());
    /// process-wide reference table: (cfg, op key, input) -> fingerprint hash of the
    /// first clean observation in this process. A later clean observation that
    /// differs means the result depended on the history of the process.
    static GLOBAL_REFS: RefCell<HashMap<u64, u64>> = RefCell::new(HashMap::new());
    /// one long-lived parser per configuration and process, never reset: it accumulates
    /// the history of every run of the worker (counters that wrap, caches that fill up)
    static SOAK: RefCell<HashMap<ParserCfg, Arc<CooklangParser>>> = RefCell::new(HashMap::new());
}

fn soak_parser(cfg: &ParserCfg) -> Arc<CooklangParser> {
    SOAK.with(|t| {
        let mut t = t.borrow_mut();
        if !t.contains_key(cfg) {
            cooklang::verif_seam::reseed(TEMPLATE_HASH_SEED ^ 0x50A6);
            t.insert(cfg.clone(), Arc::new(build_parser(cfg)));
        }
        t[cfg].clone()
    })
}

pub static NO_SOAK: std::sync::atomic::AtomicBool = std::sync::atomic::AtomicBool::new(false);

/// set once an execution with two or more simulated threads has run in this process
pub static MULTI_TASK_SEEN: std::sync::atomic::AtomicBool = std::sync::atomic::AtomicBool::new(false);
/// reference phases that included the other-OS-thread pass
pub static THREAD_PASSES: std::sync::atomic::AtomicU64 = std::sync::atomic::AtomicU64::new(0);

/// the scenario being executed, for re-entrant nested operations started from a seam
static ENV: std::sync::RwLock<Option<Arc<Env>>> = std::sync::RwLock::new(None);

fn env_set(e: Option<Arc<Env>>) {
    *ENV.write().unwrap_or_else(|p| p.into_inner()) = e;
}

/// Shadow builds (feature `shadow`) link a copy of the library whose `std::sync` primitives were
/// rewritten to shuttle's, so that every atomic / lock operation is a scheduling point. Those
/// types only work inside a shuttle execution: everything that touches the library then runs
/// inside one. Normal builds call `f` directly.
pub fn in_shuttle<R: Send + 'static>(f: impl FnOnce() -> R + Send + 'static) -> R {
    #[cfg(not(feature = "shadow"))]
    {
        f()
    }
    #[cfg(feature = "shadow")]
    {
        let cell = Arc::new(std::sync::Mutex::new(Some(f)));
        let out: Arc<std::sync::Mutex<Option<R>>> = Arc::new(std::sync::Mutex::new(None));
        let (c2, o2) = (cell.clone(), out.clone());
        let mut cfg = shuttle::Config::new();
        cfg.stack_size = 1 << 20;
        cfg.failure_persistence = shuttle::FailurePersistence::None;
        cfg.max_steps = shuttle::MaxSteps::None;
        cfg.silence_warnings = true;
        shuttle::Runner::new(SimScheduler::new(SchedSpec::List { choices: vec![] }), cfg).run(move || {
            if let Some(f) = c2.lock().unwrap().take() {
                let r = f();
                *o2.lock().unwrap() = Some(r);
            }
        });
        let r = out.lock().unwrap().take();
        r.expect("in_shuttle: the closure did not complete")
    }
}

/// clock reads shuttle's runner makes per execution, measured on an empty one
static CLOCK_OVERHEAD: std::sync::atomic::AtomicU64 = std::sync::atomic::AtomicU64::new(0);

pub fn calibrate_clock_overhead() {
    if !crate::clock::available() {
        return;
    }
    crate::clock::set(&crate::clock::ClockSpec::base());
    let r0 = crate::clock::reads();
    let mut cfg = shuttle::Config::new();
    cfg.failure_persistence = shuttle::FailurePersistence::None;
    cfg.max_steps = shuttle::MaxSteps::None;
    cfg.silence_warnings = true;
    shuttle::Runner::new(SimScheduler::new(SchedSpec::List { choices: vec![] }), cfg).run(|| {
        let h = shuttle::thread::spawn(|| {});
        let _ = h.join();
    });
    CLOCK_OVERHEAD.store(crate::clock::reads() - r0, std::sync::atomic::Ordering::Relaxed);
    crate::clock::passthrough();
}

pub const TEMPLATE_HASH_SEED: u64 = 0x00C0_FFEE_0000_0001;

/// A converter that is neither the bundled nor the empty one: the bundled units plus a layer with
/// German aliases and other fractions settings, built through `ConverterBuilder`.
const CUSTOM_DE_LAYER: &str = r#"
default_system: metric
fractions:
  metric: true
  unit:
    tsp: { max_whole: 3, max_denominator: 4 }
extend:
  units:
    gram: { aliases: [Gramm, gr] }
    tbsp: { aliases: [EL, Esslöffel] }
    tsp: { aliases: [TL, Teelöffel] }
    l: { aliases: [Liter] }
    min: { aliases: [Minuten, Min] }
    h: { aliases: [Stunde, Stunden] }
    cup: { aliases: [Tasse, Tassen] }
"#;

/// Another one: the bundled units with different SI prefix tables (`K` for kilo, `deka` for deca)
const CUSTOM_SI_LAYER: &str = r#"
si:
  precedence: after
  symbol_prefixes:
    kilo: [K]
    hecto: []
    deca: []
    deci: []
    centi: []
    milli: []
  prefixes:
    kilo: []
    hecto: []
    deca: [deka]
    deci: []
    centi: []
    milli: []
"#;

fn custom_converter(layer: &str) -> Converter {
    let build = || -> Result<Converter, String> {
        let layer: cooklang::convert::units_file::UnitsFile = serde_yaml::from_str(layer).map_err(|e| e.to_string())?;
        cooklang::convert::ConverterBuilder::new()
            .with_bundled_units()
            .map_err(|e| e.to_string())?
            .with_units_file(layer)
            .map_err(|e| e.to_string())?
            .finish()
            .map_err(|e| e.to_string())
    };
    // if the library rejects the layer (a change of the units-file format), fall back to bundled:
    // the configuration is then simply one more bundled parser
    build().unwrap_or_else(|e| {
        if std::env::var("COOKSIM_DEBUG").is_ok() {
            eprintln!("custom converter layer rejected: {e}");
        }
        Converter::bundled()
    })
}

pub fn build_parser(cfg: &ParserCfg) -> CooklangParser {
    let conv = match cfg.converter.as_str() {
        "bundled" => Converter::bundled(),
        "custom-de" => custom_converter(CUSTOM_DE_LAYER),
        "custom-si" => custom_converter(CUSTOM_SI_LAYER),
        _ => Converter::empty(),
    };
    CooklangParser::new(Extensions::from_bits_truncate(cfg.ext_bits), conv)
}

/// A never-used instance of the configuration, cloned from a per-process template
/// that was built under a fixed hash seed (so that a run does not depend on which
/// earlier run happened to build the template).
pub fn template_clone(cfg: &ParserCfg) -> CooklangParser {
    TEMPLATES.with(|t| {
        let mut t = t.borrow_mut();
        if !t.contains_key(cfg) {
            let before = cooklang::verif_seam::created();
            let _ = before;
            // building under a fixed seed must not disturb the run's own seed sequence:
            // the caller reseeds after all parsers are built.
            cooklang::verif_seam::reseed(TEMPLATE_HASH_SEED);
            t.insert(cfg.clone(), build_parser(cfg));
        }
        t[cfg].clone()
    })
}

pub struct Env {
    pub sc: Scenario,
    pub parsers: Vec<CooklangParser>,
    pub refs: BTreeMap<String, String>,
    /// results the simulated caller keeps alive (see `Retained`)
    pub retained: std::sync::Mutex<Vec<Retained>>,
}

/// A caller that keeps what a parse returned: the result stays alive while other operations run,
/// is read again after the perturbed phase - a value the caller holds must not change its
/// observable content because of unrelated later calls - and is dropped late, in another order
/// than it was created (what a parse returns must not depend on which earlier results are still
/// alive or in which order they die).
pub struct Retained {
    pub key: String,
    pub parser: usize,
    pub input: usize,
    pub fp: String,
    pub mode: u64,
    pub result: cooklang::error::PassResult<cooklang::ScalableRecipe>,
}

fn full_key(sc: &Scenario, op: &Op) -> String {
    if matches!(op.kind, OpKind::ParseFree) {
        return format!("default|{}|{}", op.kind_key(), op.input);
    }
    format!("{}|{}|{}", sc.parsers[op.parser].key(), op.kind_key(), op.input)
}

fn events_key(sc: &Scenario, op: &Op, meta: bool) -> String {
    let k = Op {
        kind: OpKind::Events { meta, take: None },
        parser: op.parser,
        input: op.input,
        faults: vec![],
        align: 0,
    };
    full_key(sc, &k)
}

// ---------------------------------------------------------------------------
// simulated callbacks

fn verdict(salt: u32, what: &str, n: u64) -> CheckResult {
    match (fnv(what.as_bytes()) ^ (salt as u64).wrapping_mul(0x9E37_79B9)) % n {
        0 => CheckResult::Warning(vec!["sim hint a".into()]),
        1 => CheckResult::Error(vec!["sim hint b".into(), "sim hint c".into()]),
        _ => CheckResult::Ok,
    }
}

fn make_options<'a>(cb: &Option<CbSpec>) -> ParseOptions<'a> {
    let mut o = ParseOptions::default();
    if let Some(cb) = cb {
        if let Some(salt) = cb.ref_check {
            o.recipe_ref_check = Some(Box::new(move |name: &str| {
                sim::obs("cb_ref", fnv(name.as_bytes()));
                sim::seam(SeamKind::Cb);
                verdict(salt, name, 3)
            }));
        }
        if let Some(salt) = cb.validator {
            o.metadata_validator = Some(Box::new(
                move |k: &serde_yaml::Value, v: &serde_yaml::Value, opts: &mut analysis::CheckOptions| {
                    let what = format!("{k:?}={v:?}");
                    sim::obs("cb_val", fnv(what.as_bytes()));
                    sim::seam(SeamKind::Cb);
                    match (fnv(what.as_bytes()) ^ salt as u64) % 7 {
                        0 => {
                            opts.include(false);
                            CheckResult::Ok
                        }
                        1 => {
                            opts.run_std_checks(false);
                            CheckResult::Ok
                        }
                        2 => {
                            opts.include(false);
                            CheckResult::Warning(vec!["excluded".into()])
                        }
                        _ => verdict(salt, &what, 5),
                    }
                },
            ));
        }
    }
    o
}

// ---------------------------------------------------------------------------
// event iterator adapter

struct Adapter<'s, I> {
    inner: I,
    n: u32,
    truncate: Option<u32>,
    seen: &'s RefCell<Vec<u64>>,
}

impl<'i, 's, I: Iterator<Item = cooklang::parser::Event<'i>>> Iterator for Adapter<'s, I> {
    type Item = cooklang::parser::Event<'i>;
    fn next(&mut self) -> Option<Self::Item> {
        if let Some(t) = self.truncate {
            if self.n >= t {
                return None;
            }
        }
        let ev = self.inner.next();
        let h = fnv(format!("{ev:?}").as_bytes());
        if ev.is_some() {
            self.seen.borrow_mut().push(h);
        }
        self.n += 1;
        sim::obs("ev", h);
        sim::seam(SeamKind::Iter); // may panic (IterPanic): the event is dropped with the frame
        ev
    }
}

// ---------------------------------------------------------------------------
// fingerprints

fn render(report: &cooklang::error::SourceReport, input: &str, color: bool) -> String {
    let mut buf = Vec::new();
    match report.write("sim.cook", input, color, &mut buf) {
        Ok(()) => String::from_utf8_lossy(&buf).into_owned(),
        Err(e) => format!("<render error {e}>"),
    }
}

/// What a caller reads out of a result through accessor methods (computed on demand), as opposed
/// to the stored fields that `Debug` prints.
trait Accessors {
    fn accessors(&self, _conv: &Converter) -> String {
        String::new()
    }
}

thread_local! {
    /// converters other than the parser's, for accessors that take one (built once per thread)
    static OTHER_CONVERTERS: (Converter, Converter) = (Converter::empty(), Converter::bundled());
    /// advances with every fingerprint: decides the ORDER in which the accessors are called
    static ACCESS_NONCE: std::cell::Cell<u64> = const { std::cell::Cell::new(0) };
}

/// Every metadata accessor, called in an order that changes from one fingerprint to the next and
/// listed in a fixed order: for plain data the list is the same whatever the order of the calls.
/// `time` is asked with the parser's converter and with two others (an accessor that takes a
/// converter must answer for THAT converter, whichever was asked first), and the same list is read
/// from a clone.
fn meta_accessors(m: &cooklang::Metadata, conv: &Converter) -> String {
    let nonce = ACCESS_NONCE.with(|c| {
        let v = c.get();
        c.set(v.wrapping_add(1));
        v
    });
    let list = |m: &cooklang::Metadata, nonce: u64| -> String {
        OTHER_CONVERTERS.with(|(empty, bundled)| {
            let calls: Vec<(&str, Box<dyn Fn() -> String + '_>)> = vec![
                ("author", Box::new(|| format!("{:?}", m.author().map(|a| (a.name().map(str::to_string), a.url().map(str::to_string)))))),
                ("description", Box::new(|| format!("{:?}", m.description()))),
                ("filtered", Box::new(|| format!("{}", m.map_filtered().count()))),
                ("locale", Box::new(|| format!("{:?}", m.locale()))),
                ("servings", Box::new(|| format!("{:?}", m.servings()))),
                ("source", Box::new(|| format!("{:?}", m.source().map(|a| (a.name().map(str::to_string), a.url().map(str::to_string)))))),
                ("tags", Box::new(|| format!("{:?}", m.tags()))),
                ("time", Box::new(|| format!("{:?}", m.time(conv)))),
                ("time/bundled-converter", Box::new(|| format!("{:?}", m.time(bundled)))),
                ("time/empty-converter", Box::new(|| format!("{:?}", m.time(empty)))),
                ("title", Box::new(|| format!("{:?}", m.title()))),
            ];
            let n = calls.len();
            let mut idx: Vec<usize> = (0..n).collect();
            // a permutation from the nonce (Fisher-Yates over a SplitMix stream)
            let mut x = nonce.wrapping_mul(0x9E37_79B9_7F4A_7C15) ^ 0xACCE55;
            for i in (1..n).rev() {
                x = (x ^ (x >> 30)).wrapping_mul(0xBF58_476D_1CE4_E5B9);
                x ^= x >> 27;
                idx.swap(i, (x % (i as u64 + 1)) as usize);
            }
            let mut vals: Vec<Option<String>> = vec![None; n];
            for &i in &idx {
                vals[i] = Some((calls[i].1)());
            }
            calls.iter().zip(vals).map(|((name, _), v)| format!("{name}={}", v.unwrap_or_default())).collect::<Vec<_>>().join(" ")
        })
    };
    let own = list(m, nonce);
    let cloned = list(&m.clone(), nonce ^ 0x5555);
    format!("{own} clone-reads-the-same={}", own == cloned)
}

impl Accessors for cooklang::Metadata {
    fn accessors(&self, conv: &Converter) -> String {
        meta_accessors(self, conv)
    }
}

impl Accessors for cooklang::ScalableRecipe {
    fn accessors(&self, conv: &Converter) -> String {
        let mut s = meta_accessors(&self.metadata, conv);
        for i in &self.ingredients {
            s.push_str(&format!(
                " | {} m={:?} def={} refd={:?} to={:?}",
                i.display_name(),
                i.modifiers(),
                i.relation.is_definition(),
                i.relation.referenced_from(),
                i.relation.references_to()
            ));
        }
        for c in &self.cookware {
            s.push_str(&format!(" # {} m={:?}", c.display_name(), c.modifiers()));
        }
        s.push_str(&format!(" servings={:?}", self.servings()));
        s
    }
}

impl Accessors for cooklang::ast::Ast<'_> {}

fn fp_result<T: std::fmt::Debug + serde::Serialize + Accessors>(
    r: &cooklang::error::PassResult<T>,
    input: &str,
    conv: &Converter,
) -> String {
    // very long inputs (hundreds of KiB): the Debug image alone, which already contains the
    // recipe and every diagnostic - JSON and two renderings would triple the cost
    if input.len() > 100_000 {
        return format!("valid={} has_output={}\nDEBUG {:?}", r.is_valid(), r.has_output(), r);
    }
    let json = match r.output() {
        Some(o) => serde_json::to_string(o).unwrap_or_else(|e| format!("<json error {e}>")),
        None => "null".into(),
    };
    // accessor views, read twice (a memoising accessor must give the same answer again)
    let acc = |r: &cooklang::error::PassResult<T>| {
        format!(
            "{} | errors={} warnings={} has_errors={} has_warnings={} valid_output={}",
            r.output().map(|o| o.accessors(conv)).unwrap_or_default(),
            r.report().errors().count(),
            r.report().warnings().count(),
            r.report().has_errors(),
            r.report().has_warnings(),
            r.valid_output().is_some(),
        )
    };
    let (a1, a2) = (acc(r), acc(r));
    format!(
        "valid={} has_output={}\nDEBUG {:?}\nJSON {}\nACCESSORS {}\nACCESSORS-AGAIN-EQUAL {}\nREPORT\n{}\nREPORT-COLOR\n{}",
        r.is_valid(),
        r.has_output(),
        r,
        json,
        a1,
        a1 == a2,
        render(r.report(), input, false),
        render(r.report(), input, true),
    )
}

/// What the simulated caller does with a result after looking at it: `PassResult` and
/// `SourceReport` have consuming methods (`into_result`, `into_report`, `into_tuple`, `unzip`,
/// `into_vec`, `map`, ...), and the parts are dropped in one order or the other. Which way is a
/// function of (operation, input text), so a reference and every later observation of a key do
/// the same; what the consuming calls return is part of the fingerprint.
fn consume<T: std::fmt::Debug>(r: cooklang::error::PassResult<T>, mode: u64) -> String {
    match mode % 8 {
        0 => {
            drop(r);
            "CONSUMED drop".into()
        }
        1 | 2 => match r.into_result() {
            Ok((out, report)) => {
                let s = format!("CONSUMED into_result Ok severity={:?} report={:?}", report.severity(), report);
                if mode % 8 == 1 {
                    drop(out);
                    drop(report);
                } else {
                    drop(report);
                    drop(out);
                }
                s
            }
            Err(report) => format!("CONSUMED into_result Err severity={:?} report={:?}", report.severity(), report),
        },
        3 => {
            let report = r.into_report();
            format!("CONSUMED into_report severity={:?} empty={} {:?}", report.severity(), report.is_empty(), report)
        }
        4 => {
            let (out, report) = r.into_tuple();
            let (errors, warnings) = report.unzip();
            format!("CONSUMED into_tuple+unzip out={} errors={:?} warnings={:?}", out.is_some(), errors, warnings)
        }
        5 => {
            let mut report = r.into_report();
            report.remove_warnings();
            let s = format!("CONSUMED remove_warnings severity={:?} {:?}", report.severity(), report);
            let v = report.into_vec();
            format!("{s} into_vec={}", v.len())
        }
        6 => {
            let mapped = r.map(|o| format!("{o:?}").len());
            format!("CONSUMED map valid={} {:?}", mapped.is_valid(), mapped.output())
        }
        _ => {
            let out = r.into_output();
            format!("CONSUMED into_output {}", out.is_some())
        }
    }
}

/// last line of the fingerprint of a result the caller kept (its consumption happens later)
const RETAINED_MARK: &str = "RETAINED-BY-CALLER";

fn consume_mode(op: &Op, input: &str) -> u64 {
    fnv(input.as_bytes()).rotate_left(7) ^ fnv(op.kind_key().as_bytes())
}

pub enum Outcome {
    Done(String),
    /// unwound by an injected fault
    Unwound,
}

fn panic_text(p: Box<dyn std::any::Any + Send>) -> String {
    if let Some(s) = p.downcast_ref::<&str>() {
        s.to_string()
    } else if let Some(s) = p.downcast_ref::<String>() {
        s.clone()
    } else {
        "<non-string panic>".into()
    }
}

/// Run `f`; a panic raised by the library is an *outcome* (it must be the same
/// outcome everywhere), a panic raised by an injected fault is `Unwound`.
fn guarded(f: impl FnOnce() -> String) -> Outcome {
    match catch_unwind(AssertUnwindSafe(f)) {
        Ok(s) => Outcome::Done(s),
        Err(p) => {
            let msg = panic_text(p);
            let loc = sim::take_last_panic().unwrap_or_default();
            if msg == sim::INJECTED {
                Outcome::Unwound
            } else {
                // location without line noise from the message itself
                let at = loc.rsplit(" @ ").next().unwrap_or("").to_string();
                Outcome::Done(format!("LIBRARY-PANIC {msg} @ {at}"))
            }
        }
    }
}

// ---------------------------------------------------------------------------
// operations

fn op_ctx(op: &Op, depth: u32) -> OpCtx {
    let mut ctx = OpCtx { depth, ..Default::default() };
    for f in &op.faults {
        match f {
            Fault::IterPanic { k } => ctx.faults.push(SeamFault { seam: SeamKind::Iter, n: *k, action: SeamAction::Panic }),
            Fault::CbPanic { j } => ctx.faults.push(SeamFault { seam: SeamKind::Cb, n: *j, action: SeamAction::Panic }),
            Fault::Reenter { seam: SeamKind::Unwind, op, .. } => {
                ctx.nested_ops.push((**op).clone());
                ctx.unwind_op = Some(ctx.nested_ops.len() - 1);
            }
            Fault::Reenter { seam, n, op } => {
                ctx.nested_ops.push((**op).clone());
                ctx.faults.push(SeamFault {
                    seam: *seam,
                    n: *n,
                    action: SeamAction::Reenter(ctx.nested_ops.len() - 1),
                });
            }
            Fault::Write { .. } | Fault::Clock { .. } => {}
            Fault::Stall { seam, n, ms } => ctx.faults.push(SeamFault { seam: *seam, n: *n, action: SeamAction::Stall(*ms) }),
        }
    }
    ctx
}

pub struct Observed {
    pub outcome: Outcome,
    /// hashes of the events the adapter delivered (adapter ops only)
    pub adapter_events: Option<Vec<u64>>,
    pub writer: Option<WriterReport>,
}

pub struct WriterReport {
    pub result: Result<(), std::io::ErrorKind>,
    pub accepted: Vec<u8>,
    pub hard_error_at: Option<u32>,
    pub hard_error_kind: Option<std::io::ErrorKind>,
    pub calls_after_error: u32,
    pub calls: u32,
    pub fired: Vec<&'static str>,
}

/// Perform one operation on `parser`. With `faults == false` (reference and
/// post phases) the op's fault list is ignored; keyed variations (callbacks,
/// truncate, take) always apply.
pub fn perform(parser: &CooklangParser, input: &str, op: &Op, faults: bool, depth: u32) -> Observed {
    // the same text at another address: a sub-slice `align` bytes into a fresh buffer
    let holder;
    let input: &str = if op.align > 0 {
        let a = op.align as usize;
        holder = format!("{}{}", "#".repeat(a), input);
        &holder[a..]
    } else {
        input
    };
    let ctx = if faults { op_ctx(op, depth) } else { OpCtx { depth, ..Default::default() } };
    if faults {
        for f in &op.faults {
            if let Fault::Clock { wall_s, step_us } = f {
                sim::fired("clock_jump");
                crate::clock::jump(&crate::clock::ClockSpec { wall_s: *wall_s, step_us: *step_us });
            }
        }
    }
    sim::push_op(ctx);
    sim::seam(SeamKind::Op);
    let seen = RefCell::new(Vec::new());
    let mut adapter_used = false;
    let mut writer: Option<WriterReport> = None;
    let outcome = match &op.kind {
        OpKind::Parse { via: Via::Direct, cb, .. } => guarded(|| {
            // the plain entry point when there are no callbacks: that is what callers use
            let r = match cb {
                None => parser.parse(input),
                Some(_) => parser.parse_with_options(input, make_options(cb)),
            };
            let fp = fp_result(&r, input, parser.converter());
            // the simulated caller keeps some results (perturbed phase, top level, short inputs)
            let mode = consume_mode(op, input);
            let mut r = Some(r);
            if faults && depth == 0 && cb.is_none() && op.align == 0 && input.len() < 20_000 {
                if let Some(env) = ENV.read().unwrap_or_else(|p| p.into_inner()).clone() {
                    let mut keep = env.retained.lock().unwrap_or_else(|p| p.into_inner());
                    if keep.len() < 6 {
                        sim::fired("result_retained");
                        keep.push(Retained { key: full_key(&env.sc, op), parser: op.parser, input: op.input, fp: fp.clone(), mode, result: r.take().unwrap() });
                    }
                }
            }
            // (a retained result is consumed the same way, later: the fingerprint of that part is
            // compared when it happens)
            match r {
                Some(r) if input.len() <= 100_000 => format!("{fp}\n{}", consume(r, mode)),
                Some(_) => fp,
                None => format!("{fp}\n{RETAINED_MARK}"),
            }
        }),
        OpKind::Parse { via: Via::Adapter, cb, truncate } => {
            adapter_used = true;
            guarded(|| {
                let it = Adapter {
                    inner: PullParser::new(input, parser.extensions()),
                    n: 0,
                    truncate: *truncate,
                    seen: &seen,
                };
                let r = analysis::parse_events(it, input, parser.extensions(), parser.converter(), make_options(cb));
                let fp = fp_result(&r, input, parser.converter());
                if input.len() <= 100_000 { format!("{fp}\n{}", consume(r, consume_mode(op, input))) } else { fp }
            })
        }
        OpKind::Metadata { via: Via::Direct, cb } => guarded(|| {
            let r = match cb {
                None => parser.parse_metadata(input),
                Some(_) => parser.parse_metadata_with_options(input, make_options(cb)),
            };
            let fp = fp_result(&r, input, parser.converter());
            if input.len() <= 100_000 { format!("{fp}\n{}", consume(r, consume_mode(op, input))) } else { fp }
        }),
        OpKind::Metadata { via: Via::Adapter, cb } => {
            adapter_used = true;
            guarded(|| {
                let it = Adapter {
                    inner: PullParser::new(input, parser.extensions()).into_meta_iter(),
                    n: 0,
                    truncate: None,
                    seen: &seen,
                };
                let r = analysis::parse_events(it, input, parser.extensions(), parser.converter(), make_options(cb))
                    .map(|c| c.metadata);
                fp_result(&r, input, parser.converter())
            })
        }
        OpKind::Events { meta, take } => guarded(|| {
            let p = PullParser::new(input, parser.extensions());
            let mut out = String::new();
            let mut pull = |it: &mut dyn Iterator<Item = cooklang::parser::Event>| {
                let mut n = 0u32;
                loop {
                    if let Some(t) = take {
                        if n >= *t {
                            sim::fired("abandon");
                            break; // abandon: the parser is dropped mid-stream
                        }
                    }
                    let Some(ev) = it.next() else { break };
                    let d = format!("{ev:?}");
                    sim::obs("ev", fnv(d.as_bytes()));
                    out.push_str(&d);
                    out.push('\n');
                    n += 1;
                    sim::seam(SeamKind::Iter);
                }
            };
            if *meta {
                pull(&mut p.into_meta_iter());
            } else {
                let mut p = p;
                pull(&mut p);
            }
            out
        }),
        OpKind::ParseFree => guarded(|| {
            let r = cooklang::parse(input);
            // (the key of this operation ignores `parser`: read the accessors with the default converter)
            let fp = fp_result(&r, input, &Converter::default());
            if input.len() <= 100_000 { format!("{fp}\n{}", consume(r, consume_mode(op, input))) } else { fp }
        }),
        OpKind::BuildAst => guarded(|| {
            let it = Adapter {
                inner: PullParser::new(input, parser.extensions()),
                n: 0,
                truncate: None,
                seen: &seen,
            };
            let r = cooklang::ast::build_ast(it);
            fp_result(&r, input, parser.converter())
        }),
        OpKind::ScaleConvert { factor, system } => guarded(|| {
            let r = parser.parse(input);
            let mut s = format!("valid={}\n", r.is_valid());
            if let Some(recipe) = r.into_output() {
                let mut scaled = recipe.scale(*factor, parser.converter());
                sim::seam(SeamKind::Op);
                let sys = if system == "imperial" { System::Imperial } else { System::Metric };
                let errs = scaled.convert(sys, parser.converter());
                s.push_str(&format!("SCALED {scaled:?}\nERRS {errs:?}\nJSON {}", serde_json::to_string(&scaled).unwrap_or_default()));
                // fraction table (process-wide lazily built state)
                for q in scaled.ingredients.iter().filter_map(|i| i.quantity.as_ref()) {
                    let mut q = q.clone();
                    let ok = q.try_fraction(parser.converter());
                    s.push_str(&format!("\nFRAC {ok} {q:?}"));
                }
                // derived views of the scaled recipe (grouped quantities as a sorted multiset: the
                // order of quantities with unknown units is a hash order the library does not promise)
                for g in scaled.group_ingredients(parser.converter()) {
                    let mut qs: Vec<String> = g.quantity.iter().map(|q| format!("{q:?}")).collect();
                    qs.sort();
                    s.push_str(&format!("\nGROUP {} {:?} {qs:?}", g.index, g.outcome));
                }
                for g in scaled.group_cookware() {
                    let mut qs: Vec<String> = g.amount.iter().map(|q| format!("{q:?}")).collect();
                    qs.sort();
                    s.push_str(&format!("\nCOOKWARE {} {qs:?}", g.index));
                }
                s.push_str(&format!("\nSCALED-DATA {:?} default={}", scaled.scaled_data().map(|d| d.target.factor()), scaled.is_default_scaled()));
            }
            // the other two scaling entry points
            if let Some(recipe) = parser.parse(input).into_output() {
                let d = recipe.default_scale();
                s.push_str(&format!("\nDEFAULT-SCALE {:?}", d.ingredients));
            }
            if let Some(recipe) = parser.parse(input).into_output() {
                let t = recipe.scale_to_servings(4, parser.converter());
                s.push_str(&format!("\nTO-SERVINGS {:?} {:?}", t.ingredients, t.scaled_data().map(|d| d.target.factor())));
            }
            s
        }),
        OpKind::Approx { value, accuracy, max_den, max_whole } => guarded(|| {
            let n = cooklang::quantity::Number::new_approx(*value, *accuracy, *max_den, *max_whole);
            format!("{n:?}")
        }),
        OpKind::Render { color, foreign } => {
            let plan: Vec<_> = if faults {
                op.faults.iter().filter_map(|f| if let Fault::Write { fault } = f { Some(fault.clone()) } else { None }).collect()
            } else {
                vec![]
            };
            let mut w = sim::FaultyWriter::new(plan, true);
            let o = guarded(|| {
                let r = parser.parse(input);
                // what a caller may legitimately pass: another file name, or a source text that is
                // not (any more) the one the report came from - the file was truncated or emptied
                // between parsing and displaying. Whatever that renders to, it is a function of
                // the arguments, and it may not leave anything behind for the next render.
                let half = {
                    let mut h = input.len() / 2;
                    while !input.is_char_boundary(h) {
                        h -= 1;
                    }
                    &input[..h]
                };
                let (name, source): (&str, &str) = match foreign {
                    1 => ("sim.cook", half),
                    2 => ("sim.cook", ""),
                    3 => ("other dir/r\u{e9}cipe no 2.cook", input),
                    _ => ("sim.cook", input),
                };
                let res = r.report().write(name, source, *color, &mut w);
                match res {
                    Ok(()) => "ok".to_string(),
                    Err(e) => format!("err {:?}", e.kind()),
                }
            });
            let result = match &o {
                Outcome::Done(s) if s == "ok" => Ok(()),
                _ => Err(w.hard_error_kind.unwrap_or(std::io::ErrorKind::Other)),
            };
            for t in &w.fired_tags {
                sim::fired(t);
            }
            writer = Some(WriterReport {
                result,
                accepted: std::mem::take(&mut w.accepted),
                hard_error_at: w.hard_error_at,
                hard_error_kind: w.hard_error_kind,
                calls_after_error: w.calls_after_error,
                calls: w.calls,
                fired: w.fired_tags.clone(),
            });
            match o {
                Outcome::Done(s) if s.starts_with("LIBRARY-PANIC") => Outcome::Done(s),
                Outcome::Done(_) => {
                    let wr = writer.as_ref().unwrap();
                    Outcome::Done(format!("{:?}\n{}", wr.result, String::from_utf8_lossy(&wr.accepted)))
                }
                Outcome::Unwound => Outcome::Unwound,
            }
        }
    };
    if let Outcome::Done(s) = &outcome {
        sim::obs("result", fnv(s.as_bytes()));
        // R line: (task, depth, operation, input) -> result, independent of the interleaving
        let h = fnv(s.as_bytes());
        let t = sim::task_id();
        sim::with(|c| {
            if let Some(log) = c.log.as_mut() {
                log.push(format!("R {t} {depth} {:016x} {h:016x}", fnv(format!("{}|{}|{}", op.parser, op.kind_key(), op.input).as_bytes())));
            }
        });
    }
    sim::pop_op();
    Observed {
        outcome,
        adapter_events: adapter_used.then(|| seen.into_inner()),
        writer,
    }
}

fn first_diff(a: &str, b: &str) -> String {
    let ab = a.as_bytes();
    let bb = b.as_bytes();
    let mut i = 0;
    while i < ab.len() && i < bb.len() && ab[i] == bb[i] {
        i += 1;
    }
    let snip = |s: &str| {
        let mut lo = i.saturating_sub(60);
        while !s.is_char_boundary(lo) {
            lo -= 1;
        }
        let mut hi = (i + 60).min(s.len());
        while !s.is_char_boundary(hi) {
            hi += 1;
        }
        s[lo..hi].to_string()
    };
    format!("first divergence at byte {i} (lens {} vs {}): expected …{:?}… got …{:?}…", a.len(), b.len(), snip(a), snip(b))
}

/// Compare one observation with the references (O1, O2 and the sink rules).
fn check(env: &Env, op: &Op, obsd: &Observed, phase: &str, faults: bool) {
    let sc = &env.sc;
    let key = full_key(sc, op);
    // O2: what the adapter delivered is a prefix of the reference event stream
    if let (Some(ev), Some(meta)) = (&obsd.adapter_events, op.uses_adapter().or(matches!(op.kind, OpKind::BuildAst).then_some(false))) {
        // (a pull parser that itself panics on this input has no reference event stream: the panic
        // text is the - consistent - outcome, and there is nothing to be a prefix of)
        if let Some(reference) = env.refs.get(&events_key(sc, op, meta)).filter(|r| !r.starts_with("LIBRARY-PANIC")) {
            let ref_hashes: Vec<u64> = reference.lines().map(|l| fnv(format!("Some({l})").as_bytes())).collect();
            let ok = ev.len() <= ref_hashes.len() && ev.iter().zip(&ref_hashes).all(|(a, b)| a == b);
            if !ok {
                sim::violation("prefix", &key, phase, format!("adapter delivered {} events that are not a prefix of the {} reference events", ev.len(), ref_hashes.len()));
            }
        }
    }
    let got = match &obsd.outcome {
        Outcome::Unwound => return, // no fingerprint of its own
        Outcome::Done(s) => s,
    };
    match &op.kind {
        OpKind::Events { meta, take: Some(_) } => {
            if let Some(reference) = env.refs.get(&events_key(sc, op, *meta)) {
                // the complete stream ends in a library panic: an abandoned prefix either stops before
                // it (then there is no complete reference to compare with) or panics the same way
                if reference.starts_with("LIBRARY-PANIC") {
                    if got.starts_with("LIBRARY-PANIC") && got != reference {
                        sim::violation("mismatch", &key, phase, first_diff(reference, got));
                    }
                } else if !reference.starts_with(got.as_str()) {
                    sim::violation("prefix", &key, phase, first_diff(reference, got));
                }
            }
        }
        OpKind::Render { .. } if faults && op.faults.iter().any(|f| matches!(f, Fault::Write { .. })) => {
            let Some(reference) = env.refs.get(&key) else { return };
            let Some(w) = &obsd.writer else { return };
            if got.starts_with("LIBRARY-PANIC") || reference.starts_with("LIBRARY-PANIC") {
                if got != reference {
                    sim::violation("mismatch", &key, phase, first_diff(reference, got));
                }
                return;
            }
            let golden = reference.splitn(2, '\n').nth(1).unwrap_or("").as_bytes().to_vec();
            let acc = &w.accepted;
            match w.hard_error_at {
                None => {
                    if w.result.is_err() || *acc != golden {
                        sim::violation("render-benign-fault-visible", &key, phase, format!("faults {:?}: result {:?}, {} bytes vs golden {}", w.fired, w.result, acc.len(), golden.len()));
                    }
                }
                Some(c) => {
                    // success means everything was delivered (a renderer may retry); failure leaves a prefix
                    let bad = match w.result {
                        Ok(()) => *acc != golden,
                        Err(_) => !golden.starts_with(acc),
                    };
                    if bad {
                        sim::violation("render-hard-fault-mishandled", &key, phase, format!("hard fault at call {c} ({:?}): result {:?}, calls after error {}, prefix {}", w.hard_error_kind, w.result, w.calls_after_error, golden.starts_with(acc)));
                    }
                }
            }
        }
        _ => match env.refs.get(&key) {
            Some(reference) if reference == got => {}
            // a result the caller kept: everything but the consuming calls, which come later
            Some(reference)
                if got.strip_suffix(RETAINED_MARK).map_or(false, |head| reference.starts_with(head) && (reference[head.len()..].starts_with("CONSUMED") || head.len() > 100_000)) => {}
            Some(reference) => sim::violation("mismatch", &key, phase, first_diff(reference, got)),
            None => sim::violation("harness", &key, phase, "no reference for key".into()),
        },
    }
}

/// Called from `sim::seam` for a planned re-entrant operation.
pub fn run_nested(op: &Op) {
    let env = ENV.read().unwrap_or_else(|p| p.into_inner()).clone();
    let Some(env) = env else { return };
    let parser = &env.parsers[op.parser];
    let input = &env.sc.inputs[op.input];
    let o = perform(parser, input, op, false, 1);
    check(&env, op, &o, "nested", false);
}

// ---------------------------------------------------------------------------
// execution

#[derive(Default, Clone, serde::Serialize, serde::Deserialize)]
pub struct RunStats {
    pub steps: u64,
    pub switches: u64,
    pub sched_hash: u64,
    pub obs_hash: u64,
    pub overlap: bool,
    pub nested: u64,
    pub ops: u64,
    pub seam_counts: [u64; 5],
    pub fired: BTreeMap<String, u64>,
    pub choices: Vec<u16>,
    pub step_cap_hit: bool,
    /// clock reads / sleeps made while time was simulated (the harness makes none: these are the library's)
    #[serde(default)]
    pub clock_reads: u64,
    #[serde(default)]
    pub clock_sleeps: u64,
    /// simulated time that passed during the execution (clock jumps of the wall clock not counted:
    /// this is the monotonic clock, which advances by stalls, sleeps and per read)
    #[serde(default)]
    pub sim_time_ns: u64,
}

pub struct RefPhase {
    pub env: Arc<Env>,
    pub violations: Vec<Violation>,
    pub ref_keys: usize,
}

/// Phase 1: build the parsers and observe every key once, cleanly, each on a
/// never-used instance of the configuration.
pub fn reference_phase(sc: &Scenario) -> RefPhase {
    reference_phase_ordered(sc, false)
}

/// `reverse`: observe the keys in the opposite order. Process-wide state keyed
/// imprecisely (a static cache) gives order-dependent references; two fresh
/// processes that differ only in this order must produce the same table.
pub fn reference_phase_ordered(sc: &Scenario, reverse: bool) -> RefPhase {
    let sc = sc.clone();
    in_shuttle(move || reference_phase_inner(&sc, reverse))
}

fn reference_phase_inner(sc: &Scenario, reverse: bool) -> RefPhase {
    sim::with(|s| {
        *s = sim::SimCtx::new();
    });
    // simulated time: every phase starts at the same instant of the same day
    crate::clock::set(&crate::clock::ClockSpec::base());
    let r = reference_phase_inner2(sc, reverse);
    crate::clock::passthrough();
    r
}

/// The clock of the third ("ambient") reference pass: another date and another speed of time,
/// a function of the scenario.
fn ambient_clock(sc: &Scenario) -> crate::clock::ClockSpec {
    let h = crate::rng::mix2(sc.hash_seed, 0xC10C);
    let walls = [
        crate::clock::EPOCH_A + 86_400,
        crate::clock::EPOCH_A + 200 * 86_400,
        crate::clock::EPOCH_A - 20 * 365 * 86_400,
        2_400_000_000,
        0,
        2_147_483_647,
        1_798_761_599,
    ];
    let steps = [1u64, 1_000, 50_000, 10_000_000];
    crate::clock::ClockSpec { wall_s: walls[(h % walls.len() as u64) as usize], step_us: steps[((h >> 8) % steps.len() as u64) as usize] }
}

fn reference_phase_inner2(sc: &Scenario, reverse: bool) -> RefPhase {
    let mut parsers = Vec::new();
    if sc.fresh_build {
        cooklang::verif_seam::reseed(sc.hash_seed);
        for cfg in &sc.parsers {
            parsers.push(build_parser(cfg));
        }
    } else {
        for (j, cfg) in sc.parsers.iter().enumerate() {
            // Half of the scenarios: a parser whose kind of converter an earlier parser of the
            // scenario already has, but with other extensions, is made the way applications make
            // it - `CooklangParser::new(other_extensions, earlier.converter().clone())`. Whatever
            // a converter hands on to its clones is then shared between two extension sets.
            let earlier = (0..j).find(|&i| sc.parsers[i].converter == cfg.converter && sc.parsers[i].ext_bits != cfg.ext_bits);
            match earlier {
                Some(i) if sc.hash_seed % 2 == 0 => {
                    let conv = parsers[i].converter().clone();
                    parsers.push(CooklangParser::new(Extensions::from_bits_truncate(cfg.ext_bits), conv));
                }
                _ => parsers.push(template_clone(cfg)),
            }
        }
    }
    cooklang::verif_seam::reseed(sc.hash_seed ^ 0x1234_5678);
    let mut env = Env { sc: sc.clone(), parsers, refs: BTreeMap::new(), retained: std::sync::Mutex::new(Vec::new()) };
    let mut need: Vec<Op> = Vec::new();
    for op in sc.all_ops() {
        let mut clean = op.clone();
        clean.faults.clear();
        if let Some(meta) = op.uses_adapter().or(matches!(op.kind, OpKind::BuildAst).then_some(false)) {
            need.push(Op { kind: OpKind::Events { meta, take: None }, parser: op.parser, input: op.input, faults: vec![], align: 0 });
        }
        if let OpKind::Events { meta, take: Some(_) } = &op.kind {
            need.push(Op { kind: OpKind::Events { meta: *meta, take: None }, parser: op.parser, input: op.input, faults: vec![], align: 0 });
            continue;
        }
        need.push(clean);
    }
    if reverse {
        need.reverse();
    }
    // Isolation between runs: one ordinary, normally completing parse before the first
    // reference, so that whatever an earlier run's last operation left behind on this OS
    // thread is not attributed to this run (leaks *within* the run are what the phases
    // below detect; leaks across runs fall back to the prefix replay).
    {
        let p = template_clone(&sc.parsers[0]);
        let _ = catch_unwind(AssertUnwindSafe(|| {
            let _ = p.parse(">> a: b\nflush @x{1%g} ~{1%min}\n");
            let _ = p.parse_metadata(">> a: b\n");
        }));
        let _ = sim::take_last_panic();
    }
    // references are taken with the input at the start of its own buffer
    for op in &mut need {
        op.align = 0;
    }
    let second_pass: Vec<Op> = need.iter().rev().cloned().collect();
    let third_pass: Vec<Op> = need.clone();
    let fourth_pass: Vec<Op> = need.clone();
    for op in need {
        let key = full_key(sc, &op);
        if env.refs.contains_key(&key) {
            continue;
        }
        let fresh = template_clone(&sc.parsers[op.parser]);
        // (template_clone may have reseeded while building a template)
        cooklang::verif_seam::reseed(crate::rng::mix2(sc.hash_seed, env.refs.len() as u64));
        let o = perform(&fresh, &sc.inputs[op.input], &op, false, 0);
        let fp = match o.outcome {
            Outcome::Done(s) => s,
            Outcome::Unwound => "UNWOUND-IN-REFERENCE".into(),
        };
        // process-wide history check
        let gk = fnv(format!("{}|{}|", sc.parsers[op.parser].key(), op.kind_key()).as_bytes()) ^ fnv(sc.inputs[op.input].as_bytes()).rotate_left(1);
        let h = fnv(fp.as_bytes());
        let prev = GLOBAL_REFS.with(|g| {
            let mut g = g.borrow_mut();
            if g.len() < 400_000 {
                *g.entry(gk).or_insert(h)
            } else {
                g.get(&gk).copied().unwrap_or(h)
            }
        });
        if prev != h {
            sim::violation("history-dependence", &key, "reference", format!("a clean observation on a never-used parser differs from an earlier clean observation of the same (configuration, operation, input) in this process: {prev:016x} vs {h:016x}"));
        }
        env.refs.insert(key, fp);
    }
    // Second pass in the opposite order: a clean observation on a never-used parser
    // must not depend on which other clean observations preceded it.
    let mut seen2 = std::collections::BTreeSet::new();
    let mut prev_key = String::from("<start of pass>");
    for op in second_pass {
        let key = full_key(sc, &op);
        if !seen2.insert(key.clone()) {
            continue;
        }
        // The second observation is made on a parser BUILT for it (45 us), not on a clone of the
        // per-process template: clones may share state with each other through an `Arc` (a cache
        // that `Clone` hands on), and then every "never-used" clone of this process is in fact
        // used - the first pass and all later phases would agree on a result that depends on
        // the history.
        let fresh = build_parser(&sc.parsers[op.parser]);
        cooklang::verif_seam::reseed(crate::rng::mix2(sc.hash_seed ^ 0x2222, seen2.len() as u64));
        let o = perform(&fresh, &sc.inputs[op.input], &op, false, 0);
        let fp = match o.outcome {
            Outcome::Done(s) => s,
            Outcome::Unwound => "UNWOUND-IN-REFERENCE".into(),
        };
        if let Some(first) = env.refs.get(&key) {
            if *first != fp {
                sim::violation("history-dependence", &key, "reference", format!("two clean observations on never-used parsers differ depending on what was observed before (second time right after {prev_key}): {}", first_diff(first, &fp)));
            }
        }
        prev_key = key;
    }
    // Third pass with nobody listening to `tracing`: whether a subscriber is interested in the
    // library's spans and events is ambient state, not input.
    sim::set_trace(false);
    // ... and in another process environment: every variable of the list (the usual ambient ones
    // plus whatever looks like a variable name in the library's source) flips between set and
    // unset. The worker is single-threaded here, so changing the environment is safe.
    let mut flipped = flip_env();
    // ... and at another date, with time running at another speed (the clock seam)
    let amb_clock = ambient_clock(sc);
    crate::clock::set(&amb_clock);
    let mut seen3 = std::collections::BTreeSet::new();
    for op in third_pass {
        let key = full_key(sc, &op);
        if !seen3.insert(key.clone()) {
            continue;
        }
        let fresh = template_clone(&sc.parsers[op.parser]);
        cooklang::verif_seam::reseed(crate::rng::mix2(sc.hash_seed ^ 0x3333, seen3.len() as u64));
        let o = perform(&fresh, &sc.inputs[op.input], &op, false, 0);
        let fp = match o.outcome {
            Outcome::Done(s) => s,
            Outcome::Unwound => "UNWOUND-IN-REFERENCE".into(),
        };
        if let Some(first) = env.refs.get(&key) {
            if *first != fp {
                // Is it the ambient state at all? Once more with everything as in the first pass: if
                // the result still differs, the cause is what was observed in between (state shared
                // by the never-used parsers of this process), not the ambient state.
                let observe = |n: u64| {
                    let fresh = template_clone(&sc.parsers[op.parser]);
                    cooklang::verif_seam::reseed(crate::rng::mix2(sc.hash_seed ^ 0x3333, n));
                    match perform(&fresh, &sc.inputs[op.input], &op, false, 0).outcome {
                        Outcome::Done(s) => s,
                        Outcome::Unwound => "UNWOUND-IN-REFERENCE".into(),
                    }
                };
                let n = seen3.len() as u64;
                let names: Vec<String> = flipped.iter().map(|(k, _)| k.clone()).collect();
                unflip_env(std::mem::take(&mut flipped));
                sim::set_trace(true);
                crate::clock::set(&crate::clock::ClockSpec::base());
                let restored = observe(n);
                if restored != *first {
                    sim::violation("history-dependence", &key, "reference", format!("a clean observation on a never-used parser differs from the first one of the same key, also with the ambient state of the first pass restored - it depends on what was observed in between: {}", first_diff(first, &restored)));
                } else {
                    // one factor at a time
                    crate::clock::set(&amb_clock);
                    let with_clock = observe(n);
                    crate::clock::set(&crate::clock::ClockSpec::base());
                    sim::set_trace(false);
                    let without_trace = observe(n);
                    sim::set_trace(true);
                    let what = if with_clock != *first {
                        format!("on the clock (wall clock {} s since the epoch, {} us per read, instead of {} s / 1 us)", amb_clock.wall_s, amb_clock.step_us, crate::clock::EPOCH_A)
                    } else if without_trace != *first {
                        "on whether a tracing subscriber is interested in the library's spans/events".to_string()
                    } else {
                        format!("on the process environment (flipped for this pass: {})", names.join(" "))
                    };
                    sim::violation("ambient-dependence", &key, "reference", format!("the result depends {what}: {}", first_diff(first, &fp)));
                }
                // back to the ambient state of this pass
                flipped = flip_env();
                sim::set_trace(false);
                crate::clock::set(&amb_clock);
            }
        }
    }
    unflip_env(flipped);
    sim::set_trace(true);
    crate::clock::set(&crate::clock::ClockSpec::base());
    // Fourth pass: the same text at another address (a sub-slice 1..7 bytes into a buffer)
    let mut seen4 = std::collections::BTreeSet::new();
    for mut op in fourth_pass {
        let key = full_key(sc, &op);
        if !seen4.insert(key.clone()) {
            continue;
        }
        op.align = 1 + (fnv(key.as_bytes()) % 7) as u8;
        let fresh = template_clone(&sc.parsers[op.parser]);
        cooklang::verif_seam::reseed(crate::rng::mix2(sc.hash_seed ^ 0x4444, seen4.len() as u64));
        let o = perform(&fresh, &sc.inputs[op.input], &op, false, 0);
        let fp = match o.outcome {
            Outcome::Done(s) => s,
            Outcome::Unwound => "UNWOUND-IN-REFERENCE".into(),
        };
        if let Some(first) = env.refs.get(&key) {
            if *first != fp {
                sim::violation("address-dependence", &key, "reference", format!("the same text handed over {} byte(s) into a buffer gives a different result: {}", op.align, first_diff(first, &fp)));
            }
        }
    }
    // ... and a prefix of the text parsed in place, i.e. followed in the caller's buffer by the rest
    // of the document (an editor buffer, a chunk of a stream, `&doc[..n]`), against the same
    // prefix in a `String` of its own: what lies beyond the end of the `&str` is not input.
    {
        let mut seen4b = std::collections::BTreeSet::new();
        for op in sc.all_ops() {
            let mut op = op.clone();
            op.faults.clear();
            op.align = 0;
            if !matches!(op.kind, OpKind::Parse { cb: None, truncate: None, .. } | OpKind::Metadata { cb: None, .. } | OpKind::Events { take: None, .. }) {
                continue;
            }
            let key = full_key(sc, &op);
            let text = &sc.inputs[op.input];
            if text.len() < 2 || text.len() > 50_000 || !seen4b.insert(key.clone()) {
                continue;
            }
            for k in 0..3u64 {
                let mut cut = 1 + (crate::rng::mix2(fnv(key.as_bytes()), k) % (text.len() as u64 - 1)) as usize;
                while !text.is_char_boundary(cut) {
                    cut -= 1;
                }
                if cut == 0 {
                    continue;
                }
                let owned = text[..cut].to_string();
                cooklang::verif_seam::reseed(crate::rng::mix2(sc.hash_seed ^ 0x4B4B, k));
                let a = match perform(&template_clone(&sc.parsers[op.parser]), &owned, &op, false, 0).outcome {
                    Outcome::Done(s) => s,
                    Outcome::Unwound => "UNWOUND-IN-REFERENCE".into(),
                };
                cooklang::verif_seam::reseed(crate::rng::mix2(sc.hash_seed ^ 0x4B4B, k));
                let b = match perform(&template_clone(&sc.parsers[op.parser]), &text[..cut], &op, false, 0).outcome {
                    Outcome::Done(s) => s,
                    Outcome::Unwound => "UNWOUND-IN-REFERENCE".into(),
                };
                if a != b {
                    sim::violation("address-dependence", &key, "reference", format!("the first {cut} bytes of the input parsed in place (followed in the caller's buffer by the rest of the text) give a different result than the same {cut} bytes in a String of their own: {}", first_diff(&a, &b)));
                    break;
                }
            }
        }
    }
    // Fifth pass: the same observations made by another OS thread - one with a name, another id,
    // a small stack, fresh thread-locals (its first library call ever) and nothing of this
    // thread's history. Which thread calls is not an input. (Normal build only: the rewritten
    // primitives of the shadow build work inside an execution only.)
    // Only while this OS thread is still "clean": simulated threads are coroutines on the worker's
    // one OS thread and share its thread-locals, so an execution with two or more of them can
    // leave a thread-local in a state no real execution produces (two save/restore guards that
    // interleave). After that, this thread and a fresh one may differ for a reason that is an
    // artifact of the simulation. Every cold-start process and the first scenarios of every
    // worker qualify.
    #[cfg(not(feature = "shadow"))]
    if !MULTI_TASK_SEEN.load(std::sync::atomic::Ordering::Relaxed) {
        let mut seen5 = std::collections::BTreeSet::new();
        let todo: Vec<Op> = env.refs.keys().cloned().collect::<Vec<_>>().into_iter().filter_map(|k| {
            sc.all_ops().into_iter().find(|op| {
                let mut c = (*op).clone();
                c.faults.clear();
                full_key(sc, &c) == k
            }).map(|op| {
                let mut c = op.clone();
                c.faults.clear();
                c.align = 0;
                c
            })
        }).filter(|op| seen5.insert(full_key(sc, op))).take(6).collect();
        if !todo.is_empty() {
            THREAD_PASSES.fetch_add(1, std::sync::atomic::Ordering::Relaxed);
            let sc2 = sc.clone();
            let hs = sc.hash_seed;
            let handle = std::thread::Builder::new().name(format!("pool-worker-{}", hs % 7)).stack_size(1 << 20).spawn(move || {
                let mut out: Vec<(String, String)> = Vec::new();
                for (i, op) in todo.iter().enumerate() {
                    let fresh = build_parser(&sc2.parsers[op.parser]);
                    cooklang::verif_seam::reseed(crate::rng::mix2(hs ^ 0x5555, i as u64));
                    let fp = match perform(&fresh, &sc2.inputs[op.input], op, false, 0).outcome {
                        Outcome::Done(s) => s,
                        Outcome::Unwound => "UNWOUND-IN-REFERENCE".into(),
                    };
                    out.push((full_key(&sc2, op), fp));
                }
                out
            });
            if let Ok(Ok(results)) = handle.map(|h| h.join()) {
                for (key, fp) in results {
                    if let Some(first) = env.refs.get(&key) {
                        if *first != fp {
                            sim::violation("thread-dependence", &key, "reference", format!("the same call made by another OS thread (named, 1 MiB stack, its first library call) gives a different result: {}", first_diff(first, &fp)));
                        }
                    }
                }
            }
        }
    }
    let violations = sim::with(|s| std::mem::take(&mut s.violations));
    let ref_keys = env.refs.len();
    RefPhase { env: Arc::new(env), violations, ref_keys }
}


/// Flip every variable of the ambient list: set ones are removed, unset ones are set to "1".
/// Returns what to restore.
#[allow(unused_unsafe)]
fn flip_env() -> Vec<(String, Option<std::ffi::OsString>)> {
    let mut saved = Vec::new();
    for k in &crate::dict::get().env {
        let old = std::env::var_os(k);
        unsafe {
            match &old {
                Some(_) => std::env::remove_var(k),
                None => std::env::set_var(k, "1"),
            }
        }
        saved.push((k.clone(), old));
    }
    saved
}

#[allow(unused_unsafe)]
fn unflip_env(saved: Vec<(String, Option<std::ffi::OsString>)>) {
    for (k, old) in saved {
        unsafe {
            match old {
                Some(v) => std::env::set_var(&k, v),
                None => std::env::remove_var(&k),
            }
        }
    }
}

/// Phase 3: faults have stopped; every key is re-observed sequentially on the shared (now used)
/// parsers, on clones of them and on the worker's long-lived parser.
fn post_phase(env: &Arc<Env>) {
    // results the caller kept: read again (they must not have changed), then dropped - the oldest
    // half first to last, the rest last to first - before anything else is observed
    {
        let mut kept: Vec<Retained> = std::mem::take(&mut *env.retained.lock().unwrap_or_else(|p| p.into_inner()));
        for k in &kept {
            let again = match guarded(|| fp_result(&k.result, &env.sc.inputs[k.input], env.parsers[k.parser].converter())) {
                Outcome::Done(s) => s,
                Outcome::Unwound => "UNWOUND".into(),
            };
            if again != k.fp {
                sim::violation("result-mutated", &k.key, "post", format!("a result the caller kept alive reads differently after later, unrelated calls: {}", first_diff(&k.fp, &again)));
            }
        }
        let half = kept.len() / 2;
        let tail: Vec<Retained> = kept.split_off(half);
        let mut finish = |k: Retained| {
            // consumed now the way this key is always consumed; what the consuming calls return
            // must be what they return for the reference
            let Retained { key, fp, mode, result, input, .. } = k;
            if env.sc.inputs[input].len() > 100_000 {
                return;
            }
            let late = match guarded(|| consume(result, mode)) {
                Outcome::Done(s) => s,
                Outcome::Unwound => "UNWOUND".into(),
            };
            if let Some(reference) = env.refs.get(&key) {
                let whole = format!("{fp}\n{late}");
                if *reference != whole {
                    sim::violation("result-mutated", &key, "post", format!("consuming a result the caller kept alive gives something else than consuming it right away: {}", first_diff(reference, &whole)));
                }
            }
        };
        for k in kept {
            finish(k);
        }
        for k in tail.into_iter().rev() {
            finish(k);
        }
    }
    for op in env.sc.all_ops() {
        let mut clean = op.clone();
        clean.faults.clear();
        let o = perform(&env.parsers[op.parser], &env.sc.inputs[op.input], &clean, false, 0);
        check(&env, &clean, &o, "post", false);
    }
    // ... and on clones of the used parsers: a clone must not inherit anything that
    // changes results (state shared through an Arc, a copied cache)
    let clones: Vec<CooklangParser> = env.parsers.iter().map(|p| p.clone()).collect();
    for op in env.sc.all_ops() {
        let mut clean = op.clone();
        clean.faults.clear();
        let o = perform(&clones[op.parser], &env.sc.inputs[op.input], &clean, false, 0);
        check(&env, &clean, &o, "post-clone", false);
    }
    // ... and on the worker's long-lived parser of that configuration (not while minimising:
    // a soak parser damaged by one candidate would make every later candidate "fail")
    if NO_SOAK.load(std::sync::atomic::Ordering::Relaxed) {
        return;
    }
    for op in env.sc.all_ops() {
        let mut clean = op.clone();
        clean.faults.clear();
        let soak = soak_parser(&env.sc.parsers[op.parser]);
        cooklang::verif_seam::reseed(env.sc.hash_seed ^ 0x50A7);
        let o = perform(&soak, &env.sc.inputs[op.input], &clean, false, 0);
        check(&env, &clean, &o, "soak", false);
    }
}

/// Phases 2 and 3 for one schedule.
pub fn execute(rp: &RefPhase, sched: &SchedSpec, want_log: bool) -> (Vec<Violation>, RunStats) {
    let env = rp.env.clone();
    sim::with(|s| {
        *s = sim::SimCtx::new();
        s.in_sim = true;
        if want_log {
            s.log = Some(Vec::new());
        }
    });
    cooklang::verif_seam::reseed(env.sc.hash_seed ^ 0x9999);
    env_set(Some(env.clone()));
    if env.sc.threads.len() >= 2 {
        MULTI_TASK_SEEN.store(true, std::sync::atomic::Ordering::Relaxed);
    }
    crate::clock::set(&crate::clock::ClockSpec::base());
    let (reads0, sleeps0) = (crate::clock::reads(), crate::clock::sleeps());
    let sim_t0 = crate::clock::now_ns();
    let scheduler = SimScheduler::new(sched.clone());
    let record = scheduler.record.clone();
    let mut cfg = shuttle::Config::new();
    cfg.stack_size = 1 << 20;
    cfg.failure_persistence = shuttle::FailurePersistence::None;
    cfg.max_steps = shuttle::MaxSteps::None; // cooksim's own cap (SimCtx::max_steps) applies
    cfg.silence_warnings = true;
    let env2 = env.clone();
    let ops_done = Arc::new(std::sync::atomic::AtomicU64::new(0));
    let ops_done2 = ops_done.clone();
    let runner = shuttle::Runner::new(scheduler, cfg);
    let r = catch_unwind(AssertUnwindSafe(move || {
        runner.run(move || {
            let env = env2.clone();
            let ops_done = ops_done2.clone();
            let mut handles = Vec::new();
            for (ti, ops) in env.sc.threads.iter().enumerate() {
                let env = env.clone();
                let ops = ops.clone();
                let ops_done = ops_done.clone();
                let _ = ti;
                handles.push(shuttle::thread::spawn(move || {
                    for op in &ops {
                        let parser = &env.parsers[op.parser];
                        let input = &env.sc.inputs[op.input];
                        let o = perform(parser, input, op, true, 0);
                        check(&env, op, &o, "perturbed", true);
                        ops_done.fetch_add(1, std::sync::atomic::Ordering::Relaxed);
                    }
                }));
            }
            for h in handles {
                let _ = h.join();
            }
            // shadow builds: the library's sync primitives only work inside the execution
            #[cfg(feature = "shadow")]
            {
                sim::with(|s| s.in_sim = false);
                post_phase(&env);
            }
        });
    }));
    sim::with(|s| s.in_sim = false);
    env_set(None);
    if let Err(p) = r {
        let msg = panic_text(p);
        let class = if msg.contains("exceeded max_steps") { "hang" } else if msg.contains("deadlock") { "deadlock" } else { "harness-panic" };
        sim::violation(class, "", "perturbed", format!("{msg} / {:?}", sim::take_last_panic()));
    }
    #[cfg(not(feature = "shadow"))]
    post_phase(&env);
    let sim_time_ns = (crate::clock::now_ns() - sim_t0).max(0) as u64;
    crate::clock::passthrough();
    // (shuttle's runner itself reads the clock a fixed number of times per execution: calibrated
    // once per process on an empty execution, see `calibrate_clock_overhead`)
    let (clock_reads, clock_sleeps) = ((crate::clock::reads() - reads0).saturating_sub(CLOCK_OVERHEAD.load(std::sync::atomic::Ordering::Relaxed)), crate::clock::sleeps() - sleeps0);
    let choices = record.lock().unwrap().clone();
    sim::with(|s| {
        let stats = RunStats {
            steps: s.steps,
            switches: s.switches,
            sched_hash: s.sched_hash,
            obs_hash: s.obs_hash,
            overlap: s.overlap,
            nested: s.nested_done,
            ops: ops_done.load(std::sync::atomic::Ordering::Relaxed),
            seam_counts: s.seam_counts,
            fired: s.fired.iter().map(|(k, v)| (k.to_string(), *v)).collect(),
            choices,
            step_cap_hit: s.step_cap_hit,
            clock_reads,
            clock_sleeps,
            sim_time_ns,
        };
        let mut v = std::mem::take(&mut s.violations);
        if s.step_cap_hit {
            v.push(Violation { class: "hang".into(), key: String::new(), phase: "perturbed".into(), detail: format!("more than {} seam points", s.max_steps) });
        }
        (v, stats)
    })
}

pub fn take_log() -> Vec<String> {
    sim::with(|s| s.log.take().unwrap_or_default())
}

/// Schedules explored for one scenario, derived from the run seed
pub fn schedules_for(run_seed: u64, n: usize, est_steps: u32) -> Vec<SchedSpec> {
    let mut r = crate::rng::Rng::new(run_seed).fork(7);
    let mut v = Vec::new();
    for i in 0..n {
        let seed = r.next_u64();
        let s = match i % 4 {
            0 => SchedSpec::Random { seed, stay: 0 },
            1 => SchedSpec::Pct { seed, depth: 3, est: est_steps.max(8) },
            2 => SchedSpec::Random { seed, stay: *r.pick(&[50u8, 80, 95]) },
            _ => SchedSpec::Pct { seed, depth: *r.pick(&[2u8, 4, 6]), est: est_steps.max(8) },
        };
        v.push(s);
    }
    v
}

/// Real OS threads, no seams, no faults: does the scenario complete and agree with
/// its references when the threads are scheduled by the operating system? Used only to
/// tell a real deadlock from an artifact of running blocking `std` primitives under
/// coroutines (a lock held across a simulated scheduling point blocks the one OS thread).
pub fn run_real_threads(sc: &Scenario) -> Vec<Violation> {
    let rp = reference_phase(sc);
    let env = rp.env.clone();
    let mut out = rp.violations.clone();
    let results: Vec<Vec<(String, Option<String>)>> = std::thread::scope(|scope| {
        let mut hs = Vec::new();
        for ops in &env.sc.threads {
            let env = env.clone();
            hs.push(scope.spawn(move || {
                let mut v = Vec::new();
                for op in ops {
                    let mut clean = op.clone();
                    clean.faults.clear();
                    let o = perform(&env.parsers[op.parser], &env.sc.inputs[op.input], &clean, false, 0);
                    let fp = match o.outcome {
                        Outcome::Done(s) => Some(s),
                        Outcome::Unwound => None,
                    };
                    v.push((full_key(&env.sc, &clean), fp));
                }
                v
            }));
        }
        hs.into_iter().map(|h| h.join().unwrap_or_default()).collect()
    });
    for (key, fp) in results.into_iter().flatten() {
        if key.contains("\"take\"") {
            continue;
        }
        if let (Some(fp), Some(reference)) = (fp, env.refs.get(&key)) {
            if *reference != fp {
                out.push(Violation { class: "mismatch".into(), key: key.clone(), phase: "real-threads".into(), detail: first_diff(reference, &fp) });
            }
        }
    }
    out
}

/// Phases 2 and 3 on real OS threads under the baton scheduler (see sim.rs). Same
/// operations, same seams, same faults, same oracles; true per-thread thread-locals.
pub fn execute_baton(rp: &RefPhase, seed: u64, stay: u32) -> (Vec<Violation>, bool) {
    let env = rp.env.clone();
    sim::with(|s| *s = sim::SimCtx::new());
    cooklang::verif_seam::reseed(env.sc.hash_seed ^ 0x9999);
    env_set(Some(env.clone()));
    let n = env.sc.threads.len();
    sim::baton_begin(n, seed, stay, std::time::Duration::from_secs(20));
    std::thread::scope(|scope| {
        for (ti, ops) in env.sc.threads.iter().enumerate() {
            let env = env.clone();
            scope.spawn(move || {
                sim::baton_enter(ti + 1);
                for op in ops {
                    let o = perform(&env.parsers[op.parser], &env.sc.inputs[op.input], op, true, 0);
                    check(&env, op, &o, "perturbed", true);
                }
                sim::baton_exit();
            });
        }
    });
    // post phase on this (spawning) thread, still collecting into the shared context
    sim::with(|s| s.in_sim = false);
    sim::baton_set_task(0);
    for op in env.sc.all_ops() {
        let mut clean = op.clone();
        clean.faults.clear();
        let o = perform(&env.parsers[op.parser], &env.sc.inputs[op.input], &clean, false, 0);
        check(&env, &clean, &o, "post", false);
    }
    let (mut ctx, timed_out) = sim::baton_end();
    env_set(None);
    (std::mem::take(&mut ctx.violations), timed_out)
}

/// Is a violation of `class` realisable without simulated threads sharing thread-locals?
/// (a) the scenario has one thread already; (b) all operations moved onto one thread, in a few
/// orders, still violate (sequential or re-entrant history); (c) real OS threads under the
/// baton scheduler violate for some seeded schedule.
pub fn confirm(sc: &Scenario, class: &str, tries: u64) -> (bool, String) {
    if sc.threads.len() <= 1 {
        return (true, "single-threaded scenario".into());
    }
    // (b) sequentialised variants
    let mut orders: Vec<Vec<usize>> = vec![(0..sc.threads.len()).collect(), (0..sc.threads.len()).rev().collect()];
    if sc.threads.len() > 2 {
        orders.push(vec![1, 0, 2].into_iter().filter(|&i| i < sc.threads.len()).chain(3..sc.threads.len()).collect());
    }
    for ord in &orders {
        let mut one = sc.clone();
        one.threads = vec![ord.iter().flat_map(|&t| sc.threads[t].clone()).collect()];
        let rp = reference_phase(&one);
        if rp.violations.iter().any(|v| v.class == class) {
            return (true, "reproduces in the reference phase alone (no threads involved)".into());
        }
        let (v, _) = execute(&rp, &SchedSpec::Random { seed: 1, stay: 0 }, false);
        if v.iter().any(|x| x.class == class) {
            return (true, format!("reproduces with all operations on one thread in thread order {ord:?}"));
        }
    }
    // (b') re-entrant variants: one operation nested into another at every event pull of the
    // outer one (a caller whose iterator or callback parses another recipe)
    let flat: Vec<Op> = sc.threads.iter().flatten().cloned().collect();
    let mut tried = 0;
    'outer: for outer in flat.iter().take(5) {
        let (meta, cb) = match &outer.kind {
            OpKind::Parse { cb, .. } => (false, cb.clone()),
            OpKind::Metadata { cb, .. } => (true, cb.clone()),
            _ => continue,
        };
        let nev = count_events(sc.parsers[outer.parser].ext_bits, &sc.inputs[outer.input], meta).min(60);
        for inner in flat.iter().take(5) {
            let mut inner = inner.clone();
            inner.faults.clear();
            for n in 0..=nev {
                tried += 1;
                if tried > 1500 {
                    break 'outer;
                }
                let mut o = outer.clone();
                o.kind = if meta { OpKind::Metadata { via: Via::Adapter, cb: cb.clone() } } else { OpKind::Parse { via: Via::Adapter, cb: cb.clone(), truncate: None } };
                o.faults = vec![Fault::Reenter { seam: SeamKind::Iter, n, op: Box::new(inner.clone()) }];
                let mut one = sc.clone();
                one.threads = vec![vec![o]];
                let rp = reference_phase(&one);
                let (v, _) = execute(&rp, &SchedSpec::Random { seed: 1, stay: 0 }, false);
                if v.iter().any(|x| x.class == class) || rp.violations.iter().any(|x| x.class == class) {
                    return (true, format!("reproduces on one thread when one operation is nested into another at event pull {n} (re-entrant caller)"));
                }
            }
        }
    }
    // (c) real threads, seeded baton schedules
    let rp = reference_phase(sc);
    if rp.violations.iter().any(|v| v.class == class) {
        return (true, "reproduces in the reference phase alone (no threads involved)".into());
    }
    let mut timeouts = 0;
    for i in 0..tries {
        let stay = [0u32, 50, 80, 95][(i % 4) as usize];
        let (v, timed_out) = execute_baton(&rp, i, stay);
        if timed_out {
            timeouts += 1;
            if timeouts >= 3 {
                return (false, "real-thread executions time out (a blocking primitive is held across a scheduling point)".into());
            }
            continue;
        }
        if v.iter().any(|x| x.class == class) {
            return (true, format!("reproduces on real OS threads under the baton scheduler (schedule seed {i}, stay {stay}%)"));
        }
    }
    (false, format!("not reproduced by sequential variants nor by {tries} seeded schedules on real OS threads"))
}

// ---------------------------------------------------------------------------
// depth of the caller: a parse started while N other parses are in progress on the same thread

/// One chain of nested parses: a parse of `outer` whose caller-supplied code (event iterator,
/// metadata validator or recipe-reference check) starts the next parse of `outer` before it
/// returns, `depth` levels deep, with a plain parse of `target` innermost. A parse therefore
/// *starts* with 0, 1, ... `depth` other parses in progress on its thread, and completes after
/// they did. Every level must return what the same call returns at top level: how deep in the
/// caller's stack a parse runs is not an input. (Re-entrant callers are legal - callbacks exist
/// so that an application can look up, and typically parse, the recipe that is referenced.)
#[derive(Clone, Debug, serde::Serialize, serde::Deserialize, PartialEq)]
pub struct DepthCase {
    /// odd levels of the chain run on a parser of this other configuration (an application whose
    /// callback looks a referenced recipe up with another parser - a metadata-only canonical one,
    /// say); the even levels and the innermost parse on `cfg`
    #[serde(default, skip_serializing_if = "Option::is_none")]
    pub cfg2: Option<ParserCfg>,
    pub cfg: ParserCfg,
    pub outer: String,
    pub target: String,
    pub depth: u32,
    /// "iter" | "validator" | "ref_check"
    pub flavour: String,
}

fn depth_outer_text(dc: &DepthCase) -> String {
    match dc.flavour.as_str() {
        "validator" if !dc.outer.starts_with("---") => format!(">> note: x\n{}", dc.outer),
        // (a plain reference or a path-style one with a directory, by the text's hash)
        "ref_check" if fnv(dc.outer.as_bytes()) % 2 == 0 => format!("Serve with @@side dish{{}}.\n\n{}", dc.outer),
        "ref_check" => format!("Serve with @@./sides/green salad{{}} or @@../base/stock{{}}.\n\n{}", dc.outer),
        _ => dc.outer.clone(),
    }
}

fn depth_level(parser: &CooklangParser, dc: &DepthCase, outer: &str, level: u32, results: &RefCell<Vec<(u32, String)>>, nested: Option<&dyn Fn()>) -> String {
    let conv = parser.converter();
    let fired = std::cell::Cell::new(false);
    let hook = || {
        if !fired.replace(true) {
            if let Some(n) = nested {
                n();
            }
        }
    };
    let _ = (level, results);
    match dc.flavour.as_str() {
        "iter" => {
            struct It<'f, I> {
                inner: I,
                hook: &'f dyn Fn(),
            }
            impl<'i, 'f, I: Iterator<Item = cooklang::parser::Event<'i>>> Iterator for It<'f, I> {
                type Item = cooklang::parser::Event<'i>;
                fn next(&mut self) -> Option<Self::Item> {
                    let ev = self.inner.next();
                    (self.hook)();
                    ev
                }
            }
            let it = It { inner: PullParser::new(outer, parser.extensions()), hook: &hook };
            let r = analysis::parse_events(it, outer, parser.extensions(), conv, ParseOptions::default());
            fp_result(&r, outer, conv)
        }
        "validator" => {
            let mut o = ParseOptions::default();
            // (verdicts are a function of the arguments, as an application's would be: what the
            // library hands to the callback is thereby part of the fingerprint)
            o.metadata_validator = Some(Box::new(|k: &serde_yaml::Value, v: &serde_yaml::Value, _o: &mut analysis::CheckOptions| {
                hook();
                verdict(11, &format!("{k:?}={v:?}"), 4)
            }));
            let r = parser.parse_with_options(outer, o);
            fp_result(&r, outer, conv)
        }
        _ => {
            let mut o = ParseOptions::default();
            o.recipe_ref_check = Some(Box::new(|name: &str| {
                hook();
                verdict(13, name, 2)
            }));
            let r = parser.parse_with_options(outer, o);
            fp_result(&r, outer, conv)
        }
    }
}

fn depth_chain(parsers: (&CooklangParser, &CooklangParser), dc: &DepthCase, outer: &str, level: u32, results: &RefCell<Vec<(u32, String)>>) {
    let parser = if level % 2 == 1 && level != dc.depth { parsers.1 } else { parsers.0 };
    if level == dc.depth {
        let fp = match guarded(|| fp_result(&parser.parse(&dc.target), &dc.target, parser.converter())) {
            Outcome::Done(s) => s,
            Outcome::Unwound => "UNWOUND".into(),
        };
        results.borrow_mut().push((level, fp));
        return;
    }
    let next = || depth_chain(parsers, dc, outer, level + 1, results);
    let fp = match guarded(|| depth_level(parser, dc, outer, level, results, Some(&next))) {
        Outcome::Done(s) => s,
        Outcome::Unwound => "UNWOUND".into(),
    };
    results.borrow_mut().push((level, fp));
}

/// Returns the violations (class `depth-dependence`) and the number of parses made.
pub fn run_depth_case(dc: &DepthCase) -> (Vec<Violation>, u64) {
    let (v, n, _) = run_depth_case_reached(dc);
    (v, n)
}

/// ... and the deepest level a parse actually ran at (the caller's code of some outer texts is
/// never called - a validator without a metadata entry - and then the chain ends early)
pub fn run_depth_case_reached(dc: &DepthCase) -> (Vec<Violation>, u64, u32) {
    let outer = depth_outer_text(dc);
    // references: the same calls at top level, on this (the worker's) thread, on a never-used parser
    let ref_parser = build_parser(&dc.cfg);
    let none = DepthCase { depth: 0, ..dc.clone() };
    let empty = RefCell::new(Vec::new());
    let ref_outer = match guarded(|| depth_level(&ref_parser, &none, &outer, 0, &empty, None)) {
        Outcome::Done(s) => s,
        Outcome::Unwound => "UNWOUND".into(),
    };
    let ref_target = match guarded(|| fp_result(&ref_parser.parse(&dc.target), &dc.target, ref_parser.converter())) {
        Outcome::Done(s) => s,
        Outcome::Unwound => "UNWOUND".into(),
    };
    // the chain runs on a thread of its own whose stack is large enough for any depth asked for
    // (about 20-60 KiB per level with debug assertions): a stack overflow would kill the worker
    let stack = (64usize << 20) + dc.depth as usize * (512 << 10);
    let dc2 = dc.clone();
    let outer2 = outer.clone();
    let shared = build_parser(&dc.cfg);
    let shared2 = build_parser(dc.cfg2.as_ref().unwrap_or(&dc.cfg));
    let two = dc.cfg2.is_some();
    // (the reference for the odd levels: the same call at top level on a never-used parser of THAT configuration)
    let ref_outer2 = match &dc.cfg2 {
        Some(c2) => {
            let p2 = build_parser(c2);
            match guarded(|| depth_level(&p2, &none, &outer, 0, &empty, None)) {
                Outcome::Done(s) => s,
                Outcome::Unwound => "UNWOUND".into(),
            }
        }
        None => ref_outer.clone(),
    };
    let handle = std::thread::Builder::new().name("cooksim-depth".into()).stack_size(stack).spawn(move || {
        let results = RefCell::new(Vec::new());
        depth_chain((&shared, if two { &shared2 } else { &shared }), &dc2, &outer2, 0, &results);
        results.into_inner()
    });
    let results = match handle.map(|h| h.join()) {
        Ok(Ok(r)) => r,
        _ => return (vec![Violation { class: "harness".into(), key: String::new(), phase: "depth".into(), detail: "the depth thread could not be started or died".into() }], 0, 0),
    };
    let reached = results.iter().map(|r| r.0).max().unwrap_or(0);
    let mut out = Vec::new();
    let n = results.len() as u64;
    // report the shallowest level that differs
    let mut results = results;
    results.sort_by_key(|r| r.0);
    for (level, fp) in &results {
        let (reference, what) = if *level == dc.depth { (&ref_target, "the innermost parse") } else if *level % 2 == 1 { (&ref_outer2, "a parse (on the second parser)") } else { (&ref_outer, "a parse") };
        if fp != reference {
            out.push(Violation {
                class: "depth-dependence".into(),
                key: format!("{}|{}|depth {}", dc.cfg.key(), dc.flavour, level),
                phase: "depth".into(),
                detail: format!("{what} started while {level} other parse(s) were in progress on the same thread (nested through the caller's {}) differs from the same call at top level: {}", dc.flavour, first_diff(reference, fp)),
            });
            break;
        }
    }
    (out, n + 2, reached)
}
